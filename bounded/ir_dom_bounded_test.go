package ir

// BOUNDED stand-in for the Lengauer-Tarjan core of buildDomTree (C14). Not a proof: the real
// buildDomTree is run on EVERY control-flow graph with at most N blocks (N from VERIF_DOM_N,
// default 4; self loops, irreducible loops, arbitrary out-degree) in which all blocks are
// reachable from the entry, and on the same graphs extended by a disjoint recover region whose
// root has no predecessors (as built by createRecoverBlock), and
// Dominates / Idom / Dominees / DomPreorder / DomPostorder are compared with the definition
// (b dominates c iff c is unreachable from the root of its region once b is removed).
//
// Injected into package go/ir with `go test -overlay`; nothing is written into /repo.

import (
	"encoding/json"
	"fmt"
	"os"
	"runtime"
	"strconv"
	"sync"
	"sync/atomic"
	"testing"
)

type verifDomFailure struct {
	N       int     `json:"blocks"`
	Edges   [][2]int `json:"edges"`
	Recover int     `json:"recover_block"` // -1: none
	What    string  `json:"what"`
}

func verifBuildFn(n int, adj []uint32, recBlock int) *Function {
	fn := &Function{Prog: &Program{}}
	fn.Blocks = make([]*BasicBlock, n)
	for i := range fn.Blocks {
		fn.Blocks[i] = &BasicBlock{Index: i, parent: fn}
	}
	for i := 0; i < n; i++ {
		for j := 0; j < n; j++ {
			if adj[i]&(1<<uint(j)) != 0 {
				fn.Blocks[i].Succs = append(fn.Blocks[i].Succs, fn.Blocks[j])
				fn.Blocks[j].Preds = append(fn.Blocks[j].Preds, fn.Blocks[i])
			}
		}
	}
	if recBlock >= 0 {
		fn.Recover = fn.Blocks[recBlock]
	}
	return fn
}

// reach returns the set of blocks reachable from root without passing through removed (-1: none).
func verifReach(n int, adj []uint32, root, removed int) uint32 {
	if root == removed {
		return 0
	}
	seen := uint32(1) << uint(root)
	stack := []int{root}
	for len(stack) > 0 {
		v := stack[len(stack)-1]
		stack = stack[:len(stack)-1]
		for w := 0; w < n; w++ {
			if w != removed && adj[v]&(1<<uint(w)) != 0 && seen&(1<<uint(w)) == 0 {
				seen |= 1 << uint(w)
				stack = append(stack, w)
			}
		}
	}
	return seen
}

// check one graph; entry region = blocks 0..m-1, recover region = blocks m..n-1 (m == n: none)
func verifCheck(n, m int, adj []uint32) *verifDomFailure {
	recBlock := -1
	if m < n {
		recBlock = m
	}
	fail := func(f string, a ...any) *verifDomFailure {
		var edges [][2]int
		for i := 0; i < n; i++ {
			for j := 0; j < n; j++ {
				if adj[i]&(1<<uint(j)) != 0 {
					edges = append(edges, [2]int{i, j})
				}
			}
		}
		return &verifDomFailure{N: n, Edges: edges, Recover: recBlock, What: fmt.Sprintf(f, a...)}
	}
	fn := verifBuildFn(n, adj, recBlock)
	var panicked any
	func() {
		defer func() { panicked = recover() }()
		buildDomTree(fn)
	}()
	if panicked != nil {
		return fail("buildDomTree panicked: %v", panicked)
	}
	rootOf := func(c int) int {
		if c >= m {
			return m
		}
		return 0
	}
	// definition of dominance
	dom := make([][]bool, n)
	for b := 0; b < n; b++ {
		dom[b] = make([]bool, n)
		for c := 0; c < n; c++ {
			if rootOf(b) != rootOf(c) {
				continue
			}
			if b == c {
				dom[b][c] = true
				continue
			}
			dom[b][c] = verifReach(n, adj, rootOf(c), b)&(1<<uint(c)) == 0
		}
	}
	for b := 0; b < n; b++ {
		for c := 0; c < n; c++ {
			if got := fn.Blocks[b].Dominates(fn.Blocks[c]); got != dom[b][c] {
				return fail("Dominates(%d,%d) = %v, definition says %v", b, c, got, dom[b][c])
			}
		}
	}
	// immediate dominators: the strict dominator dominated by all other strict dominators
	for c := 0; c < n; c++ {
		want := -1
		for b := 0; b < n; b++ {
			if b == c || !dom[b][c] {
				continue
			}
			ok := true
			for b2 := 0; b2 < n; b2++ {
				if b2 != c && dom[b2][c] && !dom[b2][b] {
					ok = false
				}
			}
			if ok {
				want = b
			}
		}
		got := -1
		if id := fn.Blocks[c].Idom(); id != nil {
			got = id.Index
		}
		if got != want {
			return fail("Idom(%d) = %d, definition says %d", c, got, want)
		}
		// Dominees is the inverse of Idom
		for _, ch := range fn.Blocks[c].Dominees() {
			if ch.Idom() != fn.Blocks[c] {
				return fail("Dominees(%d) contains %d whose Idom is different", c, ch.Index)
			}
		}
		if want >= 0 {
			found := 0
			for _, ch := range fn.Blocks[want].Dominees() {
				if ch == fn.Blocks[c] {
					found++
				}
			}
			if found != 1 {
				return fail("block %d occurs %d times in Dominees(%d)", c, found, want)
			}
		}
	}
	pre, post := fn.DomPreorder(), fn.DomPostorder()
	if len(pre) != n || len(post) != n {
		return fail("DomPreorder/DomPostorder have %d/%d blocks, want %d", len(pre), len(post), n)
	}
	posPre, posPost := make([]int, n), make([]int, n)
	seenPre, seenPost := uint32(0), uint32(0)
	for i := range pre {
		posPre[pre[i].Index], posPost[post[i].Index] = i, i
		seenPre |= 1 << uint(pre[i].Index)
		seenPost |= 1 << uint(post[i].Index)
	}
	if seenPre != 1<<uint(n)-1 || seenPost != 1<<uint(n)-1 {
		return fail("DomPreorder/DomPostorder are not permutations of the blocks")
	}
	for b := 0; b < n; b++ {
		for c := 0; c < n; c++ {
			if b != c && dom[b][c] && !(posPre[b] < posPre[c] && posPost[c] < posPost[b]) {
				return fail("%d dominates %d but the pre/post listings do not order them accordingly", b, c)
			}
		}
	}
	return nil
}

func TestVerifBoundedDom(t *testing.T) {
	maxN := 4
	if s := os.Getenv("VERIF_DOM_N"); s != "" {
		maxN, _ = strconv.Atoi(s)
	}
	var graphs, checked int64
	var first atomic.Pointer[verifDomFailure]
	for n := 1; n <= maxN; n++ {
		bits := uint(n * n)
		total := uint64(1) << bits
		workers := runtime.NumCPU()
		var wg sync.WaitGroup
		for w := 0; w < workers; w++ {
			wg.Add(1)
			go func(w int) {
				defer wg.Done()
				adj := make([]uint32, n)
				var g, c int64
				for code := uint64(w); code < total; code += uint64(workers) {
					if first.Load() != nil {
						break
					}
					for i := 0; i < n; i++ {
						adj[i] = uint32(code>>(uint(i)*uint(n))) & (1<<uint(n) - 1)
					}
					g++
					// region split m: entry region 0..m-1, recover region m..n-1, no edges across
					for m := n; m >= 1; m-- {
						okSplit := true
						for i := 0; i < n && okSplit; i++ {
							var other uint32
							if i < m {
								other = adj[i] >> uint(m)
							} else {
								other = adj[i] & (1<<uint(m) - 1)
							}
							if m < n && other != 0 {
								okSplit = false
							}
						}
						if !okSplit {
							continue
						}
						if verifReach(n, adj, 0, -1)&(1<<uint(m)-1) != 1<<uint(m)-1 {
							continue
						}
						if m < n {
							// the recover root has no predecessors (createRecoverBlock builds a block nobody jumps to)
							hasPred := false
							for i := 0; i < n; i++ {
								if adj[i]&(1<<uint(m)) != 0 {
									hasPred = true
								}
							}
							if hasPred {
								continue
							}
							r := verifReach(n, adj, m, -1)
							if r != (1<<uint(n)-1)&^(1<<uint(m)-1) {
								continue
							}
						}
						c++
						if f := verifCheck(n, m, adj); f != nil {
							first.CompareAndSwap(nil, f)
						}
					}
				}
				atomic.AddInt64(&graphs, g)
				atomic.AddInt64(&checked, c)
			}(w)
		}
		wg.Wait()
	}
	out := map[string]any{"max_blocks": maxN, "adjacency_matrices": graphs, "cfgs_checked": checked, "failure": first.Load()}
	b, _ := json.Marshal(out)
	fmt.Println("VERIF-BOUNDED " + string(b))
	if f := first.Load(); f != nil {
		t.Fatalf("REPRODUCED: %s on the CFG with %d blocks, edges %v, recover block %d", f.What, f.N, f.Edges, f.Recover)
	}
}
