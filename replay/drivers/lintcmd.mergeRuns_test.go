package lintcmd

// witnesses: lintcmd.mergeRuns
// Replay driver for lintcmd.mergeRuns (C12): a problem of an 'all' check is kept only if every
// run that checked its file reported it -- also runs that reported nothing at all; a problem
// of an 'any' check is kept if any run reported it.

import (
	"go/token"
	"testing"

	"honnef.co/go/tools/analysis/lint"
	"honnef.co/go/tools/lintcmd/runner"
)

func TestVerifReplay(t *testing.T) {
	mk := func(cat string, m lint.MergeStrategy) diagnostic {
		return diagnostic{Diagnostic: runner.Diagnostic{Position: token.Position{Filename: "f.go", Line: 1, Column: 1}, Category: cat, Message: "m"}, MergeIf: m}
	}
	all := mk("SA1", lint.MergeIfAll)
	any := mk("SA2", lint.MergeIfAny)
	files := map[string]struct{}{"f.go": {}}
	r1 := run{checkedFiles: files, diagnostics: map[diagnosticDescriptor]diagnostic{all.descriptor(): all, any.descriptor(): any}}
	r2 := run{checkedFiles: files, diagnostics: map[diagnosticDescriptor]diagnostic{}} // checked f.go, reported nothing
	r3 := run{checkedFiles: map[string]struct{}{"g.go": {}}, diagnostics: map[diagnosticDescriptor]diagnostic{}}
	count := func(ds []diagnostic, cat string) int {
		n := 0
		for _, d := range ds {
			if d.Category == cat {
				n++
			}
		}
		return n
	}
	for _, runs := range [][]run{{r1, r2}, {r2, r1}, {r1, r2, r3}} {
		got := mergeRuns(runs)
		if count(got, "SA1") != 0 {
			t.Errorf("REPRODUCED: an 'all' problem was kept although a run that checked its file did not report it (%d runs)", len(runs))
		}
		if count(got, "SA2") != 1 {
			t.Errorf("REPRODUCED: an 'any' problem reported by one run appears %d times", count(got, "SA2"))
		}
	}
	if got := mergeRuns([]run{r1, r3}); count(got, "SA1") != 1 {
		t.Errorf("REPRODUCED: an 'all' problem reported by the only run that checked its file appears %d times", count(got, "SA1"))
	}
}
