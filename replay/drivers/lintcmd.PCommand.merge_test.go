package lintcmd

// witnesses: lintcmd.(*Command).merge, lintcmd.decodeGob
// Replay driver for -merge (C12): every run contained in an input of `staticcheck -merge` takes
// part in the merge -- also when one input (a file, or stdin) holds several runs, as written by
// `staticcheck -matrix -f binary`. Each run is an independent gob stream; n runs that each report
// a different problem of an 'any' check must yield n problems.

import (
	"bytes"
	"encoding/gob"
	"fmt"
	"go/token"
	"io"
	"os"
	"path/filepath"
	"strings"
	"testing"

	"honnef.co/go/tools/analysis/lint"
	"honnef.co/go/tools/lintcmd/runner"
)

func TestVerifReplay(t *testing.T) {
	dir := t.TempDir()
	mkInput := func(n int) string {
		var buf bytes.Buffer
		for i := 0; i < n; i++ {
			pos := token.Position{Filename: fmt.Sprintf("f%d.go", i), Line: i + 1, Column: 1}
			res := lintResult{
				CheckedFiles: []string{pos.Filename},
				Diagnostics: []diagnostic{{
					Diagnostic: runner.Diagnostic{Position: pos, End: pos, Category: "SA9999", Message: fmt.Sprintf("problem of run %d", i)},
					MergeIf:    lint.MergeIfAny,
					BuildName:  fmt.Sprintf("build%d", i),
				}},
			}
			// one encoder per run, as the binary formatter does
			if err := gob.NewEncoder(&buf).Encode(res); err != nil {
				t.Fatal(err)
			}
		}
		p := filepath.Join(dir, fmt.Sprintf("runs%d.bin", n))
		if err := os.WriteFile(p, buf.Bytes(), 0o600); err != nil {
			t.Fatal(err)
		}
		return p
	}
	merge := func(stdin string, args ...string) (string, int) {
		r, w, err := os.Pipe()
		if err != nil {
			t.Fatal(err)
		}
		oldOut, oldIn := os.Stdout, os.Stdin
		os.Stdout = w
		if stdin != "" {
			f, err := os.Open(stdin)
			if err != nil {
				t.Fatal(err)
			}
			defer f.Close()
			os.Stdin = f
		}
		out := make(chan string)
		go func() { b, _ := io.ReadAll(r); out <- string(b) }()
		cmd := NewCommand("staticcheck")
		cmd.ParseFlags(append([]string{"-merge", "-f", "text", "-fail", ""}, args...))
		code := cmd.Execute()
		os.Stdout, os.Stdin = oldOut, oldIn
		w.Close()
		return <-out, code
	}
	for n := 1; n <= 4; n++ {
		p := mkInput(n)
		for _, viaStdin := range []bool{false, true} {
			var got string
			var code int
			if viaStdin {
				got, code = merge(p)
			} else {
				got, code = merge("", p)
			}
			how := "a file"
			if viaStdin {
				how = "stdin"
			}
			if code != 0 {
				t.Errorf("REPRODUCED: -merge of %s holding %d runs exits with %d", how, n, code)
				continue
			}
			if c := strings.Count(got, "problem of run"); c != n {
				t.Errorf("REPRODUCED: -merge of %s holding %d runs reports the problems of %d run(s):\n%s", how, n, c, got)
			}
		}
	}
}
