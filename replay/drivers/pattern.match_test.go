package pattern

// witnesses: pattern.match
// Replay driver for the structural comparison in pattern.match (C09): a recalled binding is
// compared with the candidate by match(m, stored, candidate) on plain AST values. A list equals
// a single node only if it has exactly one element (and that element equals the node), in both
// argument orders and for all three list types.

import (
	"go/ast"
	"go/token"
	"testing"
)

func TestVerifReplay(t *testing.T) {
	m := &Matcher{}
	m.setBindings = append(m.setBindings, 0)
	a, b := &ast.Ident{Name: "a"}, &ast.Ident{Name: "b"}
	ra, rb := &ast.ReturnStmt{Results: []ast.Expr{a}}, &ast.ReturnStmt{Results: []ast.Expr{b}}
	// (fields with a tag: a nil *ast.BasicLit is only equal to an untyped nil in match)
	tag := &ast.BasicLit{Kind: token.STRING, Value: "`t`"}
	fa, fb := &ast.Field{Type: a, Tag: tag}, &ast.Field{Type: b, Tag: tag}
	type tc struct {
		what string
		l, r any
		want bool
	}
	cases := []tc{
		{"[]Expr{a,b} vs a", []ast.Expr{a, b}, ast.Expr(a), false},
		{"a vs []Expr{a,b}", ast.Expr(a), []ast.Expr{a, b}, false},
		{"[]Expr{a} vs a", []ast.Expr{a}, ast.Expr(a), true},
		{"a vs []Expr{a}", ast.Expr(a), []ast.Expr{a}, true},
		{"[]Expr{b} vs a", []ast.Expr{b}, ast.Expr(a), false},
		{"[]Expr{} vs a", []ast.Expr{}, ast.Expr(a), false},
		{"[]Stmt{ra,rb} vs ra", []ast.Stmt{ra, rb}, ast.Stmt(ra), false},
		{"ra vs []Stmt{ra,rb}", ast.Stmt(ra), []ast.Stmt{ra, rb}, false},
		{"[]Stmt{ra} vs ra", []ast.Stmt{ra}, ast.Stmt(ra), true},
		{"ra vs []Stmt{ra}", ast.Stmt(ra), []ast.Stmt{ra}, true},
		{"[]*Field{fa,fb} vs fa", []*ast.Field{fa, fb}, fa, false},
		{"fa vs []*Field{fa,fb}", fa, []*ast.Field{fa, fb}, false},
		{"[]*Field{fa} vs fa", []*ast.Field{fa}, fa, true},
		{"fa vs []*Field{fa}", fa, []*ast.Field{fa}, true},
		{"[]Expr{a,b} vs []Expr{a,b}", []ast.Expr{a, b}, []ast.Expr{a, b}, true},
		{"[]Expr{a,b} vs []Expr{a}", []ast.Expr{a, b}, []ast.Expr{a}, false},
	}
	for _, c := range cases {
		if _, ok := match(m, c.l, c.r); ok != c.want {
			t.Errorf("REPRODUCED: match(%s) = %v, want %v: a name bound to the one could be recalled as the other", c.what, ok, c.want)
		}
	}
}
