package pattern

// Replay driver for pattern.(*Parser).node (C09): an explicit (Binding "name" pattern) node must
// carry the index of its name in Pattern.Bindings, exactly like the name@pattern shorthand.

import (
	"go/ast"
	"go/parser"
	"sort"
	"testing"
)

func TestVerifReplay(t *testing.T) {
	// 1. the contract itself: idx of the explicit form
	p := &Parser{}
	pat, err := p.Parse(`(CallExpr f@(Ident _) [(Binding "y" (Ident _))])`)
	if err != nil {
		t.Fatal(err)
	}
	call := pat.Root.(CallExpr)
	arg := call.Args.(List).Head.(Binding)
	want := -1
	for i, n := range pat.Bindings {
		if n == "y" {
			want = i
		}
	}
	if arg.idx != want {
		t.Errorf("REPRODUCED: explicit (Binding \"y\" ...) has idx %d, but \"y\" is binding number %d in Pattern.Bindings %v", arg.idx, want, pat.Bindings)
	}
	// 2. the consequence named in the property: the two spellings are not interchangeable
	run := func(src string) []string {
		pp := &Parser{}
		pt, err := pp.Parse(src)
		if err != nil {
			t.Fatal(err)
		}
		e, _ := parser.ParseExpr(`g(a)`)
		m, ok := Match(pt, e.(ast.Node))
		if !ok {
			t.Fatalf("%s did not match", src)
		}
		var ks []string
		for k := range m.State {
			ks = append(ks, k)
		}
		sort.Strings(ks)
		return ks
	}
	short := run(`(Or (CallExpr f@(Ident _) [y@(Ident "a") (Ident "nope")]) (CallExpr _ _))`)
	explicit := run(`(Or (CallExpr f@(Ident _) [(Binding "y" (Ident "a")) (Ident "nope")]) (CallExpr _ _))`)
	if len(short) != len(explicit) {
		t.Errorf("REPRODUCED: shorthand spelling leaves bindings %v, explicit spelling leaves %v after the first alternative failed", short, explicit)
	}
}
