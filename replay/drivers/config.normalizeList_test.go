package config

// witnesses: config.normalizeList
// Replay driver for config.normalizeList (C11): check lists are applied left to right, so only
// ADJACENT repetitions are redundant; a later repetition of an earlier element (after something
// else in between, e.g. "SA1000", "-SA1000", "SA1000") changes the outcome and must be kept.

import (
	"reflect"
	"testing"
)

func TestVerifReplay(t *testing.T) {
	cases := []struct{ in, want []string }{
		{[]string{"SA1000", "-SA1000", "SA1000"}, []string{"SA1000", "-SA1000", "SA1000"}},
		{[]string{"a", "a", "b"}, []string{"a", "b"}},
		{[]string{"a", "b", "b", "a", "a"}, []string{"a", "b", "a"}},
		{[]string{"a"}, []string{"a"}},
	}
	for _, c := range cases {
		got := normalizeList(append([]string(nil), c.in...))
		if !reflect.DeepEqual(got, c.want) {
			t.Errorf("REPRODUCED: normalizeList(%q) = %q; only adjacent repetitions may be dropped: want %q", c.in, got, c.want)
		}
	}
}
