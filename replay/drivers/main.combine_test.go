package main

// witnesses: main.combine#inv.keep.loop1.noleak, main.combine#inv.keep.loop1.covers, main.combine#post.noleak, main.combine#post.covers
// Replay driver for cmd/structlayout-optimize.combine (C19): folding the flat layout of a struct
// into one entry per top-level field must give every nested struct the size and alignment the
// compiler uses for it. The flat layouts below are what structlayout prints for the types named.

import (
	"testing"

	st "honnef.co/go/tools/structlayout"
)

func TestVerifReplay(t *testing.T) {
	type want struct {
		name        string
		size, align int64
	}
	cases := []struct {
		typ    string
		fields []st.Field
		want   []want
	}{
		{
			// type T struct{ A struct{ X int8 }; B int64 }
			typ: "struct{A struct{X int8}; B int64}",
			fields: []st.Field{
				{Name: "T.A.X", Type: "int8", Start: 0, End: 1, Size: 1, Align: 1},
				{IsPadding: true, Start: 1, End: 8, Size: 7},
				{Name: "T.B", Type: "int64", Start: 8, End: 16, Size: 8, Align: 8},
			},
			want: []want{{"T.A", 1, 1}, {"T.B", 8, 8}},
		},
		{
			// type T struct{ In struct{ X int64; Y int8 }; C int8 }
			typ: "struct{In struct{X int64; Y int8}; C int8}",
			fields: []st.Field{
				{Name: "T.In.X", Type: "int64", Start: 0, End: 8, Size: 8, Align: 8},
				{Name: "T.In.Y", Type: "int8", Start: 8, End: 9, Size: 1, Align: 1},
				{IsPadding: true, Start: 9, End: 16, Size: 7},
				{Name: "T.C", Type: "int8", Start: 16, End: 17, Size: 1, Align: 1},
				{IsPadding: true, Start: 17, End: 24, Size: 7},
			},
			want: []want{{"T.In", 16, 8}, {"T.C", 1, 1}},
		},
		{
			// type T struct{ A int8; In struct{ X int16; Y int8 }; B int8 } (no padding after In.Y)
			typ: "struct{A int8; In struct{X int16; Y int8}; B int8}",
			fields: []st.Field{
				{Name: "T.A", Type: "int8", Start: 0, End: 1, Size: 1, Align: 1},
				{IsPadding: true, Start: 1, End: 2, Size: 1},
				{Name: "T.In.X", Type: "int16", Start: 2, End: 4, Size: 2, Align: 2},
				{Name: "T.In.Y", Type: "int8", Start: 4, End: 5, Size: 1, Align: 1},
				{IsPadding: true, Start: 5, End: 6, Size: 1},
				{Name: "T.B", Type: "int8", Start: 6, End: 7, Size: 1, Align: 1},
				{IsPadding: true, Start: 7, End: 8, Size: 1},
			},
			want: []want{{"T.A", 1, 1}, {"T.In", 4, 2}, {"T.B", 1, 1}},
		},
	}
	for _, c := range cases {
		in := append([]st.Field(nil), c.fields...)
		got := combine(in)
		if len(got) != len(c.want) {
			t.Errorf("REPRODUCED: %s: %d entries, want %d: %v", c.typ, len(got), len(c.want), got)
			continue
		}
		for i, w := range c.want {
			if got[i].Name != w.name || got[i].Size != w.size || got[i].Align != w.align {
				t.Errorf("REPRODUCED: %s: entry %d is %s size %d align %d, the compiler's layout of that field is %s size %d align %d",
					c.typ, i, got[i].Name, got[i].Size, got[i].Align, w.name, w.size, w.align)
			}
		}
	}
}
