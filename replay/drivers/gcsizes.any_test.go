package gcsizes

// Replay driver for go/gcsizes (C19): compares Sizeof / Alignof / Offsetsof of the real code with
// the compiler's own rules as shipped in the standard library (types.SizesFor("gc", "amd64")) on
// a corpus of type expressions that exercises every rule of the layout specification.

import (
	"go/ast"
	"go/importer"
	"go/parser"
	"go/token"
	"go/types"
	"testing"
)

const verifSrc = `package p
type (
	T01 struct{ a struct{} }
	T02 struct{ a [0]int64; b struct{} }
	T03 complex64
	T04 struct{ a complex64; b int32 }
	T05 struct{ a int8; b struct{} }
	T06 struct{ a int64; b [0]int32 }
	T07 [3]struct{ a int8; b int32 }
	T08 struct{ a complex128; b int8 }
	T09 struct{ a string; b []int; c any; d int8 }
	T10 struct{ a int8; b [0]int64; c int8 }
	T11 [0]complex64
	T12 struct{ a [2]complex64; b int8 }
	T13 struct{}
	T14 struct{ a struct{}; b struct{} }
)`

func TestVerifReplay(t *testing.T) {
	fset := token.NewFileSet()
	f, err := parser.ParseFile(fset, "p.go", verifSrc, 0)
	if err != nil {
		t.Fatal(err)
	}
	pkg, err := (&types.Config{Importer: importer.Default()}).Check("p", fset, []*ast.File{f}, nil)
	if err != nil {
		t.Fatal(err)
	}
	ours := &Sizes{WordSize: 8, MaxAlign: 8}
	gc := types.SizesFor("gc", "amd64")
	for _, name := range pkg.Scope().Names() {
		T := pkg.Scope().Lookup(name).Type()
		if a, b := ours.Sizeof(T), gc.Sizeof(T); a != b {
			t.Errorf("REPRODUCED: Sizeof(%s = %s) = %d, the compiler uses %d", name, T.Underlying(), a, b)
		}
		if a, b := ours.Alignof(T), gc.Alignof(T); a != b {
			t.Errorf("REPRODUCED: Alignof(%s = %s) = %d, the compiler uses %d", name, T.Underlying(), a, b)
		}
		if st, ok := T.Underlying().(*types.Struct); ok {
			var fields []*types.Var
			for i := 0; i < st.NumFields(); i++ {
				fields = append(fields, st.Field(i))
			}
			a, b := ours.Offsetsof(fields), gc.Offsetsof(fields)
			for i := range a {
				if a[i] != b[i] {
					t.Errorf("REPRODUCED: Offsetsof(%s = %s)[%d] = %d, the compiler uses %d", name, T.Underlying(), i, a[i], b[i])
				}
			}
		}
	}
}
