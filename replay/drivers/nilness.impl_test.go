package nilness

// Replay driver for the exhaustiveness obligations of nilness.impl (C03): runs the real nilness
// analysis on a one-function package that makes go/ir emit a call of the builtin named by the
// solver's model (default: recover) with a pointer-like result.

import (
	"encoding/json"
	"fmt"
	"os"
	"os/exec"
	"path/filepath"
	"strings"
	"testing"

	"golang.org/x/tools/go/analysis/analysistest"
)

func TestVerifReplay(t *testing.T) {
	var in struct {
		Obligation string
		Model      map[string]string
	}
	json.Unmarshal([]byte(os.Getenv("VERIF_MODEL")), &in)
	name := strings.Trim(in.Model["name"], `"`)
	src := map[string]string{
		"recover":          "package a\nfunc R() (x any) { defer func() { x = recover() }(); return recover() }\n",
		"append":           "package a\nfunc R(s []int) []int { return append(s, 1) }\n",
		"UnsafeAdd":        "package a\nimport \"unsafe\"\nfunc R(p unsafe.Pointer) unsafe.Pointer { return unsafe.Add(p, 1) }\n",
		"UnsafeSlice":      "package a\nimport \"unsafe\"\nfunc R(p *int) []int { return unsafe.Slice(p, 1) }\n",
		"UnsafeSliceData":  "package a\nimport \"unsafe\"\nfunc R(p []int) *int { return unsafe.SliceData(p) }\n",
		"UnsafeStringData": "package a\nimport \"unsafe\"\nfunc R(p string) *byte { return unsafe.StringData(p) }\n",
	}
	code, ok := src[name]
	if !ok {
		name, code = "recover", src["recover"]
	}
	dir := t.TempDir()
	os.MkdirAll(filepath.Join(dir, "src", "a"), 0o755)
	os.WriteFile(filepath.Join(dir, "src", "a", "a.go"), []byte(code), 0o644)
	if os.Getenv("VERIF_CHILD") == "1" {
		// child: the analysis framework runs analyzers on their own goroutines, so a panic
		// terminates the process; the parent looks at the output
		analysistest.Run(t, os.Getenv("VERIF_CHILD_DIR"), Analysis, "a")
		fmt.Println("VERIF-CHILD-OK")
		return
	}
	cmd := exec.Command(os.Args[0], "-test.run", "TestVerifReplay")
	cmd.Env = append(os.Environ(), "VERIF_CHILD=1", "VERIF_CHILD_DIR="+dir)
	out, _ := cmd.CombinedOutput()
	if !strings.Contains(string(out), "VERIF-CHILD-OK") && strings.Contains(string(out), "panic:") {
		first := string(out)
		if i := strings.Index(first, "panic:"); i >= 0 {
			first = first[i:]
			if j := strings.Index(first, "\n"); j >= 0 {
				first = first[:j]
			}
		}
		t.Fatalf("REPRODUCED: the nilness analysis crashes on a function returning the result of the builtin %q: %s", name, first)
	}
	fmt.Println("analysis finished without panic for builtin", name)
}
