package lintcmd

// Replay driver for lintcmd.filterIgnored$1 (couldHaveMatched, C10): a line directive that
// suppressed nothing is reported unless it ONLY names disabled checks or U1000. The scenario:
// one unmatched directive naming U1000 and an enabled check, in both orders.

import (
	"go/token"
	"testing"

	"honnef.co/go/tools/lintcmd/runner"
)

func verifUnmatched(t *testing.T, names string) int {
	res := runner.ResultData{
		Directives: []runner.SerializedDirective{{
			Command:           "ignore",
			Arguments:         []string{names, "reason"},
			DirectivePosition: token.Position{Filename: "a.go", Line: 9, Column: 1},
			NodePosition:      token.Position{Filename: "a.go", Line: 10, Column: 1},
		}},
	}
	allowed := map[caseFoldedString]bool{makeCaseFoldedString("SA1000"): true, makeCaseFoldedString("U1000"): true}
	out, err := filterIgnored(nil, res, allowed)
	if err != nil {
		t.Fatal(err)
	}
	n := 0
	for _, d := range out {
		if d.Category == "staticcheck" {
			n++
		}
	}
	return n
}

func TestVerifReplay(t *testing.T) {
	a := verifUnmatched(t, "SA1000,U1000")
	b := verifUnmatched(t, "U1000,SA1000")
	if a != 1 || b != 1 {
		t.Fatalf("REPRODUCED: an unmatched '//lint:ignore SA1000,U1000 reason' is reported %d time(s), the same directive written 'U1000,SA1000' %d time(s); it names the enabled check SA1000 and so has to be reported (once) in both spellings", a, b)
	}
}
