package lintcmd

// witnesses: lintcmd.parseBuildConfigs
// Replay driver for lintcmd.parseBuildConfigs (C12): -matrix is defined as merging one run per
// build configuration, so every non-blank line of the matrix description must yield one build
// configuration -- also the last line when the input does not end in a newline.

import (
	"strings"
	"testing"
)

func TestVerifReplay(t *testing.T) {
	cases := []struct {
		in   string
		want []string
	}{
		{"linux: GOOS=linux\nwindows: GOOS=windows\n", []string{"linux", "windows"}},
		{"linux: GOOS=linux\nwindows: GOOS=windows", []string{"linux", "windows"}},
		{"only: GOOS=linux", []string{"only"}},
		{"a: X=1\n\n  \nb: Y=2\n\n", []string{"a", "b"}},
		{"", nil},
	}
	for _, c := range cases {
		got, err := parseBuildConfigs(strings.NewReader(c.in))
		if err != nil {
			t.Errorf("REPRODUCED: parseBuildConfigs(%q) failed: %v", c.in, err)
			continue
		}
		var names []string
		for _, b := range got {
			names = append(names, b.Name)
		}
		if strings.Join(names, ",") != strings.Join(c.want, ",") {
			t.Errorf("REPRODUCED: parseBuildConfigs(%q) yields the build configurations %q, want %q (a last line without a trailing newline is dropped)", c.in, names, c.want)
		}
	}
}
