package report

// Replay driver for report.MaximumLanguageVersion$1 (C20): runs the real option closure on a
// zero Options value and checks that exactly the MaximumLanguageVersion field was set.

import (
	"encoding/json"
	"os"
	"strings"
	"testing"
)

func TestVerifReplay(t *testing.T) {
	var in struct {
		Obligation string
		Model      map[string]string
	}
	json.Unmarshal([]byte(os.Getenv("VERIF_MODEL")), &in)
	vers := strings.Trim(in.Model["vers$in"], `"`)
	if vers == "" {
		vers = "go1.5"
	}
	var opts Options
	MaximumLanguageVersion(vers)(&opts)
	want := Options{MaximumLanguageVersion: vers}
	if opts.MaximumLanguageVersion != want.MaximumLanguageVersion || opts.MinimumLanguageVersion != "" ||
		opts.MinimumStdlibVersion != "" || opts.MaximumStdlibVersion != "" {
		t.Fatalf("REPRODUCED: MaximumLanguageVersion(%q) applied to a zero Options gives %+v, want only MaximumLanguageVersion=%q set", vers, opts, vers)
	}
}
