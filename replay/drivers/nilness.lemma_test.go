package nilness

// Replay driver for the lattice lemmas of package nilness (C13, C15): evaluates the semilattice
// laws and the join-soundness condition on the REAL lattice{}.Merge for the abstract values of
// the solver's model (and, since the domain is tiny, for the whole domain as well).

import (
	"encoding/json"
	"os"
	"strconv"
	"strings"
	"testing"
)

func modelInt(m map[string]string, name string) (int, bool) {
	v, ok := m[name]
	if !ok {
		return 0, false
	}
	v = strings.NewReplacer("(", "", ")", "", " ", "").Replace(v)
	n, err := strconv.Atoi(v)
	return n, err == nil
}

func gamReal(n Nilness, c int) bool {
	switch n {
	case NeverNil:
		return c == 1
	case AlwaysNil:
		return c == 0
	case MaybeNil, MaybeNilGlobal:
		return true
	}
	return false
}

func TestVerifReplay(t *testing.T) {
	var in struct {
		Obligation string
		Model      map[string]string
	}
	json.Unmarshal([]byte(os.Getenv("VERIF_MODEL")), &in)
	l := lattice{}
	one := func(x Nilness) ValueNilness { return ValueNilness{Inner: x, Outer: x} }
	m := func(x, y Nilness) Nilness { return l.Merge(one(x), one(y)).Outer }
	check := func(x, y, z Nilness, c int) {
		if m(x, y) != m(y, x) {
			t.Errorf("REPRODUCED: Merge not commutative: Merge(%v,%v)=%v but Merge(%v,%v)=%v", x, y, m(x, y), y, x, m(y, x))
		}
		if m(x, m(y, z)) != m(m(x, y), z) {
			t.Errorf("REPRODUCED: Merge not associative on (%v,%v,%v): %v vs %v", x, y, z, m(x, m(y, z)), m(m(x, y), z))
		}
		if m(x, x) != x {
			t.Errorf("REPRODUCED: Merge not idempotent: Merge(%v,%v)=%v", x, x, m(x, x))
		}
		if m(x, 0) != x || m(0, x) != x {
			t.Errorf("REPRODUCED: 0 is not the identity for %v", x)
		}
		if m(x, y) > 4 {
			t.Errorf("REPRODUCED: Merge(%v,%v)=%v leaves the domain", x, y, m(x, y))
		}
		if m(x, y) == 0 && (x != 0 || y != 0) {
			t.Errorf("REPRODUCED: Merge(%v,%v) is the identity", x, y)
		}
		if (gamReal(x, c) || gamReal(y, c)) && !gamReal(m(x, y), c) {
			t.Errorf("REPRODUCED: unsound join: concrete value %d (0=nil,1=non-nil) is described by %v or %v but not by Merge=%v", c, x, y, m(x, y))
		}
	}
	x, okx := modelInt(in.Model, "x$in")
	y, _ := modelInt(in.Model, "y$in")
	z, _ := modelInt(in.Model, "z$in")
	c, _ := modelInt(in.Model, "c$in")
	if okx && x >= 0 && x <= 4 && y >= 0 && y <= 4 && z >= 0 && z <= 4 {
		check(Nilness(x), Nilness(y), Nilness(z), c)
	}
	if t.Failed() {
		return
	}
	for x := Nilness(0); x <= 4; x++ {
		for y := Nilness(0); y <= 4; y++ {
			for z := Nilness(0); z <= 4; z++ {
				for c := 0; c <= 1; c++ {
					check(x, y, z, c)
				}
			}
		}
	}
}
