package unused

// witnesses: unused.(*SerializedGraph).Merge
// Replay driver for (*SerializedGraph).Merge (C17): merging is a pure accumulation of edges.
// Every use/own edge (a, b) of a merged graph must be present between the nodes a and b were
// mapped to, also when a was deduplicated against a node that is already in the graph, and
// edges that were there before stay; all ids stay in range.

import (
	"go/token"
	"testing"

	"golang.org/x/tools/go/types/objectpath"
)

func TestVerifReplay(t *testing.T) {
	obj := func(name string, col int) Object {
		return Object{Name: name, Path: ObjectPath{PkgPath: "p", ObjPath: objectpath.Path("T." + name)},
			Position: token.Position{Filename: "f.go", Line: 1, Column: col}}
	}
	has := func(xs []NodeID, v NodeID) bool {
		for _, x := range xs {
			if x == v {
				return true
			}
		}
		return false
	}
	find := func(g *SerializedGraph, name string) NodeID {
		for i, n := range g.nodes {
			if i != 0 && n.obj.Name == name {
				return NodeID(i)
			}
		}
		t.Fatalf("REPRODUCED: object %s is not in the merged graph", name)
		return 0
	}
	// variant A: root -> a
	// variant B: root -> a, a uses b, a owns c   (a is already known when B is merged)
	A := []Node{{id: 0, uses: []NodeID{1}}, {id: 1, obj: obj("a", 1)}}
	B := []Node{
		{id: 0, uses: []NodeID{1}},
		{id: 1, obj: obj("a", 1), uses: []NodeID{2}, owns: []NodeID{3}},
		{id: 2, obj: obj("b", 2)},
		{id: 3, obj: obj("c", 3)},
	}
	for _, order := range [][][]Node{{A, B}, {B, A}} {
		var g SerializedGraph
		for _, part := range order {
			cp := make([]Node, len(part))
			for i, n := range part {
				cp[i] = Node{id: n.id, obj: n.obj, uses: append([]NodeID(nil), n.uses...), owns: append([]NodeID(nil), n.owns...)}
			}
			g.Merge(cp)
		}
		a, b, c := find(&g, "a"), find(&g, "b"), find(&g, "c")
		if !has(g.nodes[a].uses, b) {
			t.Errorf("REPRODUCED: the use edge a -> b of a merged graph is missing")
		}
		if !has(g.nodes[a].owns, c) {
			t.Errorf("REPRODUCED: the own edge a -> c of a merged graph is missing")
		}
		for i, n := range g.nodes {
			for _, u := range append(append([]NodeID(nil), n.uses...), n.owns...) {
				if int(u) >= len(g.nodes) {
					t.Errorf("REPRODUCED: node %d has an edge to %d, but there are only %d nodes", i, u, len(g.nodes))
				}
			}
		}
		// the sub-graph roots hang off the root
		if len(g.nodes[0].uses) != 2 {
			t.Errorf("REPRODUCED: root uses %v, want one edge per merged graph", g.nodes[0].uses)
		}
	}
}
