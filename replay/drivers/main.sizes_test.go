package main

// witnesses: main.sizes#post.end, main.sizes#post.lastsize, main.sizes#post.chain, main.sizes#inv.keep.loop3
// Replay driver for cmd/structlayout.sizes (C19): the reported entries must tile [0, size of the
// struct) without gaps or overlaps, and plain fields must sit at the compiler's offsets. The
// corpus exercises nesting, trailing padding of nested structs and trailing zero-size fields.

import (
	"go/ast"
	"go/importer"
	"go/parser"
	"go/token"
	"go/types"
	"testing"
)

const verifSizesSrc = `package p
type (
	Inner struct{ X int64; Y int8 }
	T01 struct{ A int64; B Inner; C int8 }
	T02 struct{ A Inner; B Inner }
	T03 struct{ A int8; B struct{ X int32; Y struct{ P int16; Q int8 } }; C int64 }
	T04 struct{ A int64; B struct{ X int64; Z struct{} }; C int8 }
	T05 struct{ A int8; B int64; C int8 }
	T06 struct{ A Inner }
	T07 struct{ A struct{ X Inner; Y int8 }; B int16 }
	T08 struct{ Z struct{} }
	T09 struct{ A int8; E struct{ Z struct{} }; B int8 }
	T10 struct{ A int64; Z struct{} }
	T11 struct{ E struct{ Z [0]int64 }; B int8 }
)`

func TestVerifReplay(t *testing.T) {
	fset := token.NewFileSet()
	f, err := parser.ParseFile(fset, "p.go", verifSizesSrc, 0)
	if err != nil {
		t.Fatal(err)
	}
	pkg, err := (&types.Config{Importer: importer.Default()}).Check("p", fset, []*ast.File{f}, nil)
	if err != nil {
		t.Fatal(err)
	}
	gc := types.SizesFor("gc", "amd64")
	for _, name := range pkg.Scope().Names() {
		T := pkg.Scope().Lookup(name).Type()
		st, ok := T.Underlying().(*types.Struct)
		if !ok || st.NumFields() == 0 {
			continue
		}
		out := sizes(st, name, 0, nil)
		total := gc.Sizeof(T)
		if len(out) == 0 {
			t.Errorf("REPRODUCED: %s = %s: no entries", name, st)
			continue
		}
		if out[0].Start != 0 {
			t.Errorf("REPRODUCED: %s = %s: first entry starts at %d", name, st, out[0].Start)
		}
		for i := 0; i+1 < len(out); i++ {
			if out[i].End != out[i+1].Start {
				t.Errorf("REPRODUCED: %s = %s: entry %d (%s) ends at %d but entry %d (%s) starts at %d: the bytes in between are not reported (gap) or reported twice (overlap)",
					name, st, i, out[i].Name, out[i].End, i+1, out[i+1].Name, out[i+1].Start)
			}
		}
		if last := out[len(out)-1]; last.End != total {
			t.Errorf("REPRODUCED: %s = %s: last entry ends at %d, the compiler's size is %d", name, st, last.End, total)
		}
	}
}
