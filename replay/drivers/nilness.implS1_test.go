package nilness

// witnesses: tsdefault_same, tscase_same, conv_src, conv_ptr, conv_str, conv_other
// Replay driver for the transfer rules of processBlock (nilness.impl$1, C15): the facts exported
// for a function must be sound for its real executions. Scenario: in the default branch of a
// type switch `switch y := x.(type)` the variable y IS the interface operand x; if x holds a
// typed nil pointer, y is a non-nil interface value.

import (
	"fmt"
	"unsafe"
	"go/types"
	"os"
	"os/exec"
	"path/filepath"
	"strings"
	"testing"

	"golang.org/x/tools/go/analysis"
	"golang.org/x/tools/go/analysis/analysistest"
)

const verifTSSrc = `package a
import "unsafe"
func H(u uintptr) unsafe.Pointer { return unsafe.Pointer(u) }
func F() any {
	var p *int
	var x any = p
	switch y := x.(type) {
	case string:
		panic(y)
	default:
		return y
	}
}
func G() any {
	var p *int
	var x any = p
	switch y := x.(type) {
	case *int, *string:
		return y
	}
	panic("unreachable")
}
`

// the same functions, executed
func verifH(u uintptr) unsafe.Pointer { return unsafe.Pointer(u) }

func verifF() any {
	var p *int
	var x any = p
	switch y := x.(type) {
	case string:
		panic(y)
	default:
		return y
	}
}

func verifG() any {
	var p *int
	var x any = p
	switch y := x.(type) {
	case *int, *string:
		return y
	}
	panic("unreachable")
}

func TestVerifReplay(t *testing.T) {
	if os.Getenv("VERIF_CHILD") == "1" {
		probe := &analysis.Analyzer{
			Name:     "probe",
			Doc:      "prints the nilness of F's result",
			Requires: []*analysis.Analyzer{Analysis},
			Run: func(pass *analysis.Pass) (any, error) {
				res := pass.ResultOf[Analysis].(*Result)
				for _, name := range []string{"F", "G", "H"} {
					fn := pass.Pkg.Scope().Lookup(name).(*types.Func)
					fmt.Printf("VERIF-NILNESS %s %v\n", name, res.Nilness(fn, 0).Outer)
				}
				return nil, nil
			},
		}
		analysistest.Run(t, os.Getenv("VERIF_CHILD_DIR"), probe, "a")
		return
	}
	dir := t.TempDir()
	os.MkdirAll(filepath.Join(dir, "src", "a"), 0o755)
	os.WriteFile(filepath.Join(dir, "src", "a", "a.go"), []byte(verifTSSrc), 0o644)
	cmd := exec.Command(os.Args[0], "-test.run", "TestVerifReplay")
	cmd.Env = append(os.Environ(), "VERIF_CHILD=1", "VERIF_CHILD_DIR="+dir)
	out, _ := cmd.CombinedOutput()
	if strings.Contains(string(out), "VERIF-NILNESS F AlwaysNil") && verifF() != nil {
		t.Errorf("REPRODUCED: F() returns a non-nil interface (it holds a nil *int), yet the analysis classifies F's result as AlwaysNil: in the default branch of the type switch y is the operand x itself, but its outer nilness was taken from x's inner nilness:\n%s", verifTSSrc)
	}
	if strings.Contains(string(out), "VERIF-NILNESS G AlwaysNil") && verifG() != nil {
		t.Errorf("REPRODUCED: G() returns a non-nil interface, yet the analysis classifies G's result as AlwaysNil (multi-type case: y is the operand itself)")
	}
	if strings.Contains(string(out), "VERIF-NILNESS H NeverNil") && verifH(0) == nil {
		t.Errorf("REPRODUCED: H(0) = unsafe.Pointer(uintptr(0)) is nil, yet the analysis classifies H's result as NeverNil: a conversion from a type that is not pointer-like copied the operand's 'never nil'")
	}
	fmt.Println(string(out))
}
