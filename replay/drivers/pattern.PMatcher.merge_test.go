package pattern

// Replay driver for pattern.(*Matcher).merge (C09). Obligation merge#post.union says that the
// bindings recorded in a successfully finished frame have to be recorded in the enclosing
// frame. The scenario: an inner Or succeeds and binds x, then the enclosing alternative
// fails; its bindings must disappear.

import (
	"go/ast"
	"go/parser"
	"sort"
	"testing"
)

func verifKeys(m *Matcher) []string {
	var ks []string
	for k := range m.State {
		ks = append(ks, k)
	}
	sort.Strings(ks)
	return ks
}

func TestVerifReplay(t *testing.T) {
	p := &Parser{}
	pat, err := p.Parse(`(Or (CallExpr (Or x@(Ident "f")) [(Ident "nope")]) (CallExpr _ _))`)
	if err != nil {
		t.Fatal(err)
	}
	expr, err := parser.ParseExpr(`f(a)`)
	if err != nil {
		t.Fatal(err)
	}
	m, ok := Match(pat, expr.(ast.Node))
	if !ok {
		t.Fatalf("pattern did not match at all")
	}
	if keys := verifKeys(m); len(keys) != 0 {
		t.Fatalf("REPRODUCED: after the first alternative failed and the second (binding-free) alternative matched, State still has the bindings %v of the failed alternative (made inside its nested Or)", keys)
	}
}
