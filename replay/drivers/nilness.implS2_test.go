package nilness

// witnesses: impl$2#post.parallel, impl$2#inv, impl$2#contract-mismatch
// Replay driver for processPhis (nilness.impl$2, C15): the phis at the head of a block are a
// parallel assignment. Scenario: two pointer variables are swapped in a loop; after one iteration
// the variable that started non-nil is nil.

import (
	"fmt"
	"go/types"
	"os"
	"os/exec"
	"path/filepath"
	"strings"
	"testing"

	"golang.org/x/tools/go/analysis"
	"golang.org/x/tools/go/analysis/analysistest"
)

var verifPhiX int

const verifPhiSrc = `package a
var X int
func F(n int) *int {
	var p *int = nil
	q := &X
	for i := 0; i < n; i++ {
		p, q = q, p
	}
	return q
}
`

// the same function, executed
func verifPhiF(n int) *int {
	var p *int = nil
	q := &verifPhiX
	for i := 0; i < n; i++ {
		p, q = q, p
	}
	return q
}

func TestVerifReplay(t *testing.T) {
	if os.Getenv("VERIF_CHILD") == "1" {
		probe := &analysis.Analyzer{
			Name:     "probe",
			Doc:      "prints the nilness of F's result",
			Requires: []*analysis.Analyzer{Analysis},
			Run: func(pass *analysis.Pass) (any, error) {
				res := pass.ResultOf[Analysis].(*Result)
				fn := pass.Pkg.Scope().Lookup("F").(*types.Func)
				fmt.Printf("VERIF-NILNESS F %v\n", res.Nilness(fn, 0).Outer)
				return nil, nil
			},
		}
		analysistest.Run(t, os.Getenv("VERIF_CHILD_DIR"), probe, "a")
		return
	}
	dir := t.TempDir()
	os.MkdirAll(filepath.Join(dir, "src", "a"), 0o755)
	os.WriteFile(filepath.Join(dir, "src", "a", "a.go"), []byte(verifPhiSrc), 0o644)
	cmd := exec.Command(os.Args[0], "-test.run", "TestVerifReplay")
	cmd.Env = append(os.Environ(), "VERIF_CHILD=1", "VERIF_CHILD_DIR="+dir)
	out, _ := cmd.CombinedOutput()
	if strings.Contains(string(out), "VERIF-NILNESS F NeverNil") && verifPhiF(1) == nil {
		t.Errorf("REPRODUCED: F(1) returns nil (q and p were swapped once), yet the analysis classifies F's result as NeverNil: the phis of the loop header were assigned one after the other, so the second phi read the first phi's NEW value:\n%s", verifPhiSrc)
	}
	fmt.Println(string(out))
}
