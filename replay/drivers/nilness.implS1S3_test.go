package nilness

// witnesses: nilness.impl$1$3, nilness.impl$1$2
// Replay driver for the slice-to-array rules of nilness.impl (C03): runs the real nilness
// analysis on conversions of a slice to array types, defined and alias array types, type
// parameters over arrays, and to pointers to such arrays. The analysis must not crash on
// buildable code.

import (
	"fmt"
	"os"
	"os/exec"
	"path/filepath"
	"strings"
	"testing"

	"golang.org/x/tools/go/analysis/analysistest"
)

func TestVerifReplay(t *testing.T) {
	code := `package a

type A [4]int
type E [0]int
type B = [2]int

// every function has a pointer-like result, so the nilness analysis looks at its body
func F1(s []int) *[3]int { a := [3]int(s); return &a }
func F2(s []int) *A      { a := A(s); return &a }
func F3(s []int) *E      { a := E(s); return &a }
func F4(s []int) *B      { a := B(s); return &a }
func F5[T ~[2]int | ~[3]int](s []int) *T { a := T(s); return &a }
func F6[T A | E](s []int) *T { a := T(s); return &a }
func P1(s []int) *[3]int { return (*[3]int)(s) }
func P2(s []int) *A      { return (*A)(s) }
func P3(s []int) *E      { return (*E)(s) }
func P4(s []int) *B      { return (*B)(s) }
func P5[T *A | *E](s []int) *T { p := T(s); return &p }
`
	dir := t.TempDir()
	os.MkdirAll(filepath.Join(dir, "src", "a"), 0o755)
	os.WriteFile(filepath.Join(dir, "src", "a", "a.go"), []byte(code), 0o644)
	if os.Getenv("VERIF_CHILD") == "1" {
		// child: the analysis framework runs analyzers on their own goroutines, so a panic
		// terminates the process; the parent looks at the output
		analysistest.Run(t, os.Getenv("VERIF_CHILD_DIR"), Analysis, "a")
		fmt.Println("VERIF-CHILD-OK")
		return
	}
	cmd := exec.Command(os.Args[0], "-test.run", "TestVerifReplay")
	cmd.Env = append(os.Environ(), "VERIF_CHILD=1", "VERIF_CHILD_DIR="+dir)
	out, _ := cmd.CombinedOutput()
	if !strings.Contains(string(out), "VERIF-CHILD-OK") && strings.Contains(string(out), "panic:") {
		first := string(out)
		if i := strings.Index(first, "panic:"); i >= 0 {
			first = first[i:]
			if j := strings.Index(first, "\n"); j >= 0 {
				first = first[:j]
			}
		}
		t.Fatalf("REPRODUCED: the nilness analysis crashes on a conversion of a slice to a defined array type (or a pointer to one): %s", first)
	}
	if !strings.Contains(string(out), "VERIF-CHILD-OK") {
		t.Logf("child did not finish, but no panic either:\n%s", out)
	}
}
