package lintcmd

// Replay driver for the sort order in lintcmd.(*Command).printDiagnostics (C12): each problem is
// annotated with exactly the build names under which it occurred. Scenario: two different
// checks report at the same position with the same message, under two builds each.

import (
	"bytes"
	"go/token"
	"io"
	"os"
	"strings"
	"testing"

	"honnef.co/go/tools/analysis/lint"
	"honnef.co/go/tools/lintcmd/runner"

	"golang.org/x/tools/go/analysis"
)

func TestVerifReplay(t *testing.T) {
	cmd := NewCommand("verif")
	cmd.flags.formatter = "text"
	cmd.flags.fail = list{}
	cs := []*lint.Analyzer{
		{Analyzer: &analysis.Analyzer{Name: "SA1000"}, Doc: &lint.RawDocumentation{}},
		{Analyzer: &analysis.Analyzer{Name: "SA2000"}, Doc: &lint.RawDocumentation{}},
	}
	pos := token.Position{Filename: "a.go", Line: 3, Column: 1}
	var ds []diagnostic
	for _, build := range []string{"a", "b"} {
		for _, cat := range []string{"SA1000", "SA2000"} {
			ds = append(ds, diagnostic{Diagnostic: runner.Diagnostic{Position: pos, Category: cat, Message: "m"}, BuildName: build})
		}
	}
	old := os.Stdout
	r, w, _ := os.Pipe()
	os.Stdout = w
	cmd.printDiagnostics(cs, ds)
	w.Close()
	os.Stdout = old
	var buf bytes.Buffer
	io.Copy(&buf, r)
	lines := strings.Split(strings.TrimSpace(buf.String()), "\n")
	if len(lines) != 2 || !strings.Contains(lines[0], "[a,b]") || !strings.Contains(lines[1], "[a,b]") {
		t.Fatalf("REPRODUCED: two problems, each occurring under the builds a and b, are printed as %d line(s) instead of two lines annotated [a,b]:\n%s", len(lines), buf.String())
	}
}
