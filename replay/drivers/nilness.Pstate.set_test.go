package nilness

// Replay driver for nilness.(*state).set (C15): set must change the valuation only at its key.
// Scenario: a global (default: never nil) is numbered by a read (get) and never stored; a later
// set of a value with a higher number must not turn its default into "no information".

import (
	"fmt"
	"go/types"
	"os"
	"os/exec"
	"path/filepath"
	"strings"
	"testing"

	"golang.org/x/tools/go/analysis"
	"golang.org/x/tools/go/analysis/analysistest"
)

const verifStateSrc = `package a
import "unsafe"
var G int
func F(c bool) *int {
	q := (*int)(unsafe.Pointer(&G))
	_ = q
	if c {
		return &G
	}
	return nil
}
`

func TestVerifReplay(t *testing.T) {
	if os.Getenv("VERIF_CHILD") == "1" {
		probe := &analysis.Analyzer{
			Name:     "probe",
			Doc:      "prints the nilness of F's result",
			Requires: []*analysis.Analyzer{Analysis},
			Run: func(pass *analysis.Pass) (any, error) {
				res := pass.ResultOf[Analysis].(*Result)
				fn := pass.Pkg.Scope().Lookup("F").(*types.Func)
				fmt.Printf("VERIF-NILNESS %v\n", res.Nilness(fn, 0).Outer)
				return nil, nil
			},
		}
		analysistest.Run(t, os.Getenv("VERIF_CHILD_DIR"), probe, "a")
		return
	}
	dir := t.TempDir()
	os.MkdirAll(filepath.Join(dir, "src", "a"), 0o755)
	os.WriteFile(filepath.Join(dir, "src", "a", "a.go"), []byte(verifStateSrc), 0o644)
	cmd := exec.Command(os.Args[0], "-test.run", "TestVerifReplay")
	cmd.Env = append(os.Environ(), "VERIF_CHILD=1", "VERIF_CHILD_DIR="+dir)
	out, _ := cmd.CombinedOutput()
	if strings.Contains(string(out), "VERIF-NILNESS AlwaysNil") {
		t.Fatalf("REPRODUCED: F(true) returns &G (never nil), yet the analysis classifies F's result as AlwaysNil: the global's default (NeverNil) was overwritten with 'no information' when a later-numbered value was stored:\n%s", verifStateSrc)
	}
	fmt.Println(string(out))
}
