package pattern

// Replay driver for pattern.(Not).Match (C09): bindings made inside a Not operand must not be
// observable. Scenario: the operand binds z and then fails, so Not succeeds.

import (
	"go/ast"
	"go/parser"
	"sort"
	"testing"
)

func TestVerifReplay(t *testing.T) {
	p := &Parser{}
	pat, err := p.Parse(`(CallExpr _ (Not [z@(Ident "a") (Ident "nope")]))`)
	if err != nil {
		t.Fatal(err)
	}
	expr, err := parser.ParseExpr(`f(a, b)`)
	if err != nil {
		t.Fatal(err)
	}
	m, ok := Match(pat, expr.(ast.Node))
	if !ok {
		t.Fatalf("pattern did not match at all")
	}
	var keys []string
	for k := range m.State {
		keys = append(keys, k)
	}
	sort.Strings(keys)
	if len(keys) != 0 {
		t.Fatalf("REPRODUCED: the match succeeded through Not, yet State contains %v, bound inside the Not operand", keys)
	}
}
