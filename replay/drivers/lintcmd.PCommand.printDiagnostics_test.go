package lintcmd

// Replay driver for lintcmd.(*Command).printDiagnostics (C11, exit status): an IGNORED problem
// must not influence the exit status, whether or not ignored problems are shown.

import (
	"go/token"
	"testing"

	"honnef.co/go/tools/analysis/lint"
	"honnef.co/go/tools/lintcmd/runner"

	"golang.org/x/tools/go/analysis"
)

func verifExit(t *testing.T, showIgnored bool) int {
	cmd := NewCommand("verif")
	cmd.flags.formatter = "null"
	cmd.flags.showIgnored = showIgnored
	cmd.flags.fail = list{"all"}
	cs := []*lint.Analyzer{{Analyzer: &analysis.Analyzer{Name: "SA1000"}, Doc: &lint.RawDocumentation{}}}
	ds := []diagnostic{{
		Diagnostic: runner.Diagnostic{Position: token.Position{Filename: "a.go", Line: 3, Column: 1}, Category: "SA1000", Message: "m"},
		Severity:   severityIgnored,
	}}
	return cmd.printDiagnostics(cs, ds)
}

func TestVerifReplay(t *testing.T) {
	a, b := verifExit(t, false), verifExit(t, true)
	if a != 0 || b != 0 {
		t.Fatalf("REPRODUCED: the only problem is ignored by a //lint:ignore directive, yet the exit status is %d without -show-ignored and %d with -show-ignored (must be 0 in both cases)", a, b)
	}
}
