#!/bin/sh
# build the VC generator
export GOFLAGS=-mod=mod GOPROXY=off GOSUMDB=off GOTOOLCHAIN=local PATH=/opt/veriftools/go1.26.8/bin:$PATH
cd /verif/govc && mkdir -p /verif/bin && go build -o /verif/bin/govc .
