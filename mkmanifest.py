#!/usr/bin/env python3
# Generates MANIFEST.json from the table below (kept next to DESIGN.md §7/§8).
import json, subprocess

TECH = "contract-based deductive verification: weakest-precondition VCs generated from /repo's Go source (go/ast+go/types) against //@ contracts, discharged by SMT (z3 4.8.12, z3 5.1.0, cvc5 1.0.3 raced per obligation)"

claimed = {
 "C03": ("proof of one source of analyzer panics named in the property: every type switch with a panicking default (panic / lint.ExhaustiveTypeSwitch) in nilness, unused and the check packages, whose scrutinee is a sealed interface (go/ir, go/ast, go/types), covers every implementor that can arrive, and the builtin-name switch of the nilness analysis handles every builtin go/ir can call with a pointer-like result; the implementor sets are recomputed from the loaded packages on every run, so a new IR instruction or a dropped case fails a named obligation",
         "assumed (listed one by one in trusted_base): for switches that are deliberately partial, the implementors without a case are assumed not to arrive (sweeps/C03.assumed-unreachable.json); the IR builder constructs only the types it builds with &T{} / new(T); NOT decided: every other source of panics (index errors, failed type assertions, nil dereferences inside checks), analyzer errors, loader failures", "DESIGN.md §7 C03"),
 "C04": ("proof of key completeness, the direction of cache transparency that contracts can decide: at the moment the action id is computed in subrunner.do the hash has absorbed, in order, the salt, the merged configuration with only Checks cleared, the package hash, the analyzer names, the -go version, GODEBUG and, per dependency, its path and the content hash of its facts file; loader.computeHash absorbs the salt, GOOS/GOARCH, the import path, the ACTION id half of the build id (or all file hashes and go.mod) and one record per import",
         "assumed: formatted records are injective in their arguments (frec uninterpreted), SHA-256 collision-free, cache.NewHash/Sum/FileHash as described (trusted contracts); NOT decided: non-interference of the analysis in everything that is not hashed (environment, files read by analyzers), the write path of the cache (which artefacts are stored under the key), histories of edits", "DESIGN.md §7 C04"),
 "C05": ("proof for every content of an index file (all truncation lengths, all corruptions) that DiskCache.get succeeds only for a well-formed entry naming the requested id and returns what the bytes say; GetBytes/GetFile hand out data only if SHA-256 / size match the entry; and proof of the commit order of copyFile as a crash invariant: in a sequential POSIX-style file model in which every write is an arbitrary prefix (crash / short write), after EVERY I/O call of copyFile the data file satisfies 'has the promised size ==> has the promised SHA-256', so a writer dying at any point of a store never leaves a full-size file with wrong bytes, and every successful return of copyFile (all three, including the size==0 one) leaves a file of the promised size and hash; runner.getCachedFiles reports success only if every requested id was found on disk",
         "assumed (trusted, listed): the file-system model (os.OpenFile/Stat/Truncate/Write/Remove, io.CopyN through io.MultiWriter, io.ReadFull, hex.Decode, strconv.ParseInt), SHA-256 collision-free, the source's content does not change between the two passes (Put's documented precondition), os.Stat fails only for missing files; NOT decided: concurrent processes and Trim (schedules), putIndexEntry's write order, end-to-end equality of linter results", "DESIGN.md §7 C05"),
 "C09": ("proof that the binding machinery of the pattern matcher keeps alternatives atomic: Matcher.set/push/pop/merge against a set view of the frame stack; Or.Match, Not.Match, Binding.Match and Matcher.Match proved against the generic matcher contract G plus the property's clauses (failed Or alternative and Not operand leave no bindings; recall compares against the stored value); Parser.node/object/array/bindingIndex: both spellings of a binding carry the index of their name",
         "assumed: contract G for the reflective core `match` (trusted, listed) and the reflective populateNode; NOT decided: structural equality semantics of the reflective comparison itself", "DESIGN.md §7 C09"),
 "C10": ("proof, at mechanism level, that ignore directives suppress exactly what they name: lineIgnore.match / fileIgnore.match hit exactly the problems in the same file (and line) whose category one of the names glob-matches; parseDirectives turns each well-formed ignore/file-ignore directive into exactly one ignore with the file, line, names and position of the directive, each directive without a reason into one compile error and no ignore, and ignores unknown commands; serializeDirective locates directives with the same position mapping as problems; couldHaveMatched reports an unmatched line directive unless it only names disabled checks or U1000; parseDirective splits command and arguments",
         "assumed: filepath.Match (uninterpreted), strings.Split/ToLower, report.DisplayPosition; NOT decided: the loop of filterIgnored that applies the ignores to the problems, attachment of comments to nodes (ast.CommentMap in lint.ParseDirectives), the U1000-specific handling inside unused, the end-to-end relation through runner and cache", "DESIGN.md §7 C10"),
 "C11": ("proof of the list-merging and check-selection functions against the documented semantics: config.mergeLists (inherit splicing), Config.Merge, mergeConfigs (left fold, outermost first), normalizeList (adjacent duplicates only), parseConfigs (reversal, default first), lintcmd.filterAnalyzerNames (all / category glob / prefix glob / literal / negation, last match wins)",
         "assumed: strings.HasPrefix/HasSuffix/IndexFunc, TOML decoding and the directory walk (havoc); NOT decided: exit status and formatter equivalence (printDiagnostics), application of the selection in the runner", "DESIGN.md §7 C11"),
 "C12": ("proof that mergeRuns returns exactly the problems the property names: every result was reported by some run and satisfies the any/all condition (all: every run that checked the file reported the same descriptor), and every reported problem satisfying it occurs in the result",
         "NOT decided: build-name annotation and de-duplication in printDiagnostics, gob decoding of -merge inputs, -matrix parsing; order independence follows from the set-level postcondition (paper step)", "DESIGN.md §7 C12"),
 "C13": ("proof of the lattice laws the solvers rely on: nilness lattice (table read from source) associativity, commutativity, idempotence, identity, closure over the full domain; dfa.DenseMapLattice and dfa.MapLattice Merge are pointwise merges, their Equals is exactly equality of the denoted total maps (sound and complete), and the four laws plus symmetry, transitivity and congruence hold as decided by Equals, for every element semilattice; worklist bitmap of the dense solver (enqueue/dequeue against a set view); one step of the sparse solver's worklist loop (Instance.Forward): after processing the mappings of an instruction the valuation agrees with the last mapping produced per value (missing values read as the identity, not the zero value) and, if the valuation changed anywhere, every referrer of the instruction is on the worklist, which never loses elements during the step; Instance.Value/Set against the valuation",
         "assumed: the element lattice satisfies the semilattice laws and its Equals is equality (that is the hypothesis of the statement), slices.EqualFunc/ContainsFunc and maps.EqualFunc as documented (extern contracts over apply()), container/heap touches only the heap slice; NOT decided: that the dense and sparse solvers reach the least fixpoint (the step facts are not composed into the global claim), the dense solver's propagate loop, termination", "DESIGN.md §7 C13"),
 "C14": ("proof that the pre/post numbering of the dominator tree makes Dominates exact: numberDomTree assigns numbers such that interval containment equals the subtree relation (for all forests, unbounded), Dominates/Idom/Dominees read exactly those fields, both listings contain every block; BOUNDED (not proof): the Lengauer-Tarjan core buildDomTree is run on every CFG with <= 4 (quick) / <= 5 (thorough) blocks incl. a disjoint recover region and compared with the definition of dominance",
         "assumed: the forest axioms (sub/cidx/csum exist for every finite forest; paper step), sort.Slice permutes; NOT decided beyond the bound: exactness of idom computed by Lengauer-Tarjan for more than 5 blocks", "DESIGN.md §7 C14"),
 "C15": ("proof that the nilness join is sound w.r.t. the concretisation (gamma) for all 25 pairs per component and that the merge table stays a semilattice; that the abstract state (state.get/set/setInner/setOuter) denotes a valuation of IR values that changes only at the key written (frame over all other values) and never erases a value's default; that normalize keeps the valuation well-formed; and that the transfer rule for builtin calls (handleReturnValue) implements a rule table proved sound against the concrete semantics of the builtins (lemma builtin_rule_sound)",
         "assumed: the lazy numbering is an injective function num (axiom), the concrete semantics canBe of the eight builtins (ghost definition, transcribed from the language spec), typeutil.IsPointerLike and the ir observers; NOT decided: local soundness of the remaining transfer rules in processBlock (loads, phis, type assertions, sigma nodes), fact import/export, SA4023; the standard abstract-interpretation argument from local soundness to global soundness is a paper step", "DESIGN.md §7 C15"),
 "C17": ("proof that the U1000 verdict is a function of the edge set and merged over variants as stated: SerializedGraph.color is a sound and complete reachability colouring (seen contains the root, is closed under use edges, and is contained in every edge-closed predicate containing the root), quieten never touches the seen bits, Results partitions the nodes by (seen, quiet), and linter.lint keys Used and Unused objects identically and reports exactly the collected unused objects whose key no result marked used",
         "assumed: the least-fixpoint step from (closed, contains root, contained in every closed predicate) to 'seen == reachable' (paper), monotonicity of reachability in the edge set (paper); NOT decided: that the AST walk produces the same edge set under file/declaration permutation, SerializedGraph.Merge (whole-program mode)", "DESIGN.md §7 C17"),
 "C19": ("proof that go/gcsizes implements the compiler's layout rules for every type: Sizeof, Alignof and Offsetsof equal a trusted specification transcribed from go/types' gcSizes (basic sizes, strings/slices/interfaces, arrays, structs with trailing zero-size field rule, complex alignment, max-align clamp) via mutual induction; cmd/structlayout.sizes appends entries that tile [base, base + the compiler's size of the struct) without gaps or overlaps (first entry starts at base, every entry ends where the next starts, the last ends at base + size, by induction over nesting) and leave earlier entries untouched; structlayout-optimize: align, offsetsof, size, Swap, Less is the documented order and a strict weak order, pad produces a tiling of [0,total) in which every field is aligned and total is a multiple of the largest alignment",
         "assumed: the transcription of the compiler's rules (axioms gcspec, listed), go/types observers, targets (8,8) and (4,4) only; sort.Sort sorts w.r.t. Less (optimize is one call of it); go/types' Struct.Underlying is the identity (axiom); NOT decided: that plain fields are reported at exactly the compiler's offsets inside the tiling (only start/chain/end are stated), combine, minimality of the sorted layout, JSON plumbing", "DESIGN.md §7 C19"),
 "C20": ("proof that a version-restricted problem is reported exactly when the effective language and standard-library versions lie in the range: report.Report (iff), the four option setters set exactly their own field (frame), code.StdlibVersion / LanguageVersion follow the documented rules",
         "assumed: go/version.Compare, types.Info.FileVersions, Package.GoVersion (dependencies); the loader (loadFromSource) passes the -go flag value or the module version to types.Config.GoVersion (at-call assertion) and the flag parser accepts exactly module|1.N; NOT decided: go/types honouring GoVersion", "DESIGN.md §7 C20"),
}

na = {
 "C01": "semantic equivalence of the whole IR builder/lifter with the Go compiler needs a language semantics and a simulation proof; no per-function contract expresses it",
 "C02": "global well-formedness of an aliased pointer/slice object graph produced by 5 kLoC; not implied by any function-local contract within reach",
 "C06": "quantifies over schedules and data races; the VC generator has no concurrency model",
 "C07": "oracle is the Go type checker on a transformed package; the AST walk has no specification but itself (its colouring half is proved under C17)",
 "C16": "relations between 200 checks' output and go/format, go/parser, go/types and program behaviour; only a position-ordering sliver is contract-sized",
 "C18": "interleavings of goroutines, sync.Once, atomics, task graph; no concurrency model",
}
pending = "contracts not completed yet (build in progress); will be claimed once its obligations discharge stably"

hooks = subprocess.run(["git", "-C", "/repo", "log", "--format=%h %s"], capture_output=True, text=True).stdout.strip().split("\n")
hook_commits = [l.split()[0] for l in hooks if "verif hook" in l]

m = {
 "version": 1,
 "setup_cmd": "cd /verif/govc && GOFLAGS=-mod=mod GOPROXY=off GOSUMDB=off GOTOOLCHAIN=local PATH=/opt/veriftools/go1.26.8/bin:$PATH go build -o /verif/bin/govc .",
 "hooks": {
  "guard": "verif",
  "enable": "-tags verif (the hook commits only add comment-only contracts_verif.go files; with the tag off they are not compiled, with it on they compile to nothing)",
  "baseline_off_cmd": "/verif/baseline_off.sh",
  "source_commits": hook_commits,
  "add_only": True,
 },
 "engines": [{"name": "govc", "path": "/verif/govc", "serves_properties": sorted(claimed), "kind_free_text": "contract-based deductive verifier for Go written for this task: weakest-precondition VC generation over go/ast+go/types of the real functions in /repo, contracts as //@ comments in contracts_verif.go files behind build tag verif, obligations discharged by z3 4.8.12 / z3 5.1.0 / cvc5 1.0.3 raced per obligation"}],
 "checks": [],
 "not_applicable": [],
 "notes": "fix: commits in /repo (genuine defects found by failing obligations and replayed on the real code) are listed in /verif/known-findings.txt",
}
for pid in sorted(claimed):
    text, note, ref = claimed[pid]
    m["checks"].append({
        "property_id": pid,
        "quick_cmd": "./check %s quick" % pid,
        "thorough_cmd": "./check %s thorough" % pid,
        "evidence_file": "/verif/evidence/%s.json" % pid,
        "replay_cmd_template": "./check --replay {path}",
        "engine": "govc",
        "level_claimed": {"category": "proof", "text": text, "design_ref": ref},
        "level_note": note,
        "technique": TECH,
    })
for i in range(1, 21):
    pid = "C%02d" % i
    if pid in claimed:
        continue
    m["not_applicable"].append({"property_id": pid, "reason": na.get(pid, pending)})
json.dump(m, open("/verif/MANIFEST.json", "w"), indent=1)
print("claimed:", sorted(claimed))
