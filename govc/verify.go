package main

// Function-level verification: build the unit, run the symbolic executor, emit obligations.

import (
	"fmt"
	"go/ast"
	"go/token"
	"go/types"
	"os"
	"path/filepath"
	"sort"
	"strings"

	"golang.org/x/tools/go/packages"
)

func (e *Engine) load(patterns []string) error {
	cfg := &packages.Config{
		Mode:       packages.NeedName | packages.NeedFiles | packages.NeedSyntax | packages.NeedTypes | packages.NeedTypesInfo | packages.NeedImports | packages.NeedDeps | packages.NeedCompiledGoFiles,
		Dir:        e.repo,
		BuildFlags: []string{"-tags=verif"},
		Fset:       e.fset,
	}
	pkgs, err := packages.Load(cfg, patterns...)
	if err != nil {
		return err
	}
	var errs []string
	packages.Visit(pkgs, nil, func(p *packages.Package) {
		if strings.HasPrefix(p.PkgPath, "honnef.co/go/tools") {
			for _, pe := range p.Errors {
				errs = append(errs, pe.Error())
			}
		}
		e.pkgs[p.PkgPath] = p
	})
	if len(errs) > 0 {
		return fmt.Errorf("type errors in /repo: %s", strings.Join(errs, "; "))
	}
	// contract files of every loaded /repo package (roots and dependencies)
	var all []*packages.Package
	for path, p := range e.pkgs {
		if strings.HasPrefix(path, "honnef.co/go/tools") {
			all = append(all, p)
		}
	}
	sort.Slice(all, func(i, j int) bool { return all[i].PkgPath < all[j].PkgPath })
	for _, p := range all {
		if len(p.GoFiles) == 0 {
			continue
		}
		dir := filepath.Dir(p.GoFiles[0])
		matches, _ := filepath.Glob(filepath.Join(dir, "contracts*_verif.go"))
		sort.Strings(matches)
		for _, path := range matches {
			cf, err := readContractFile(path, p.PkgPath)
			if err != nil {
				return err
			}
			if old := e.cfiles[p.PkgPath]; old != nil {
				old.Contracts = append(old.Contracts, cf.Contracts...)
				old.Ghosts = append(old.Ghosts, cf.Ghosts...)
				old.Axioms = append(old.Axioms, cf.Axioms...)
				old.Lemmas = append(old.Lemmas, cf.Lemmas...)
				for k, v := range cf.Consts {
					old.Consts[k] = v
				}
			} else {
				e.cfiles[p.PkgPath] = cf
			}
			for _, gv := range cf.GhostVars {
				e.ghostVars[p.PkgPath+"."+gv.Name] = gv
			}
			for _, gf := range cf.GhostFields {
				k := p.PkgPath + "." + gf.TypeName
				e.ghostFields[k] = append(e.ghostFields[k], gf)
				e.ghostFieldHome[k] = p.PkgPath
			}
			for _, im := range cf.Immutable {
				if i := strings.LastIndex(im, "."); i >= 0 {
					e.immutable[e.resolvePkgPath(im[:i])+"."+im[i+1:]] = true
				} else {
					e.immutable[p.PkgPath+"."+im] = true
				}
			}
			for _, c := range cf.Contracts {
				if c.Extern {
					pk, key := splitExternKey(c.Key)
					c.PkgPath = e.resolvePkgPath(pk)
					c.Key = key
					e.contractHome[c] = p.PkgPath
				}
				full := c.PkgPath + "." + c.Key
				if _, dup := e.contracts[full]; dup && !c.Extern {
					return fmt.Errorf("%s:%d: duplicate contract for %s", c.File, c.Line, full)
				}
				if _, dup := e.contracts[full]; !dup {
					e.contracts[full] = c
				}
			}
			for _, g := range cf.Ghosts {
				e.ghosts[p.PkgPath+"."+g.Name] = g
			}
			for _, l := range cf.Lemmas {
				e.lemmas[p.PkgPath+"."+l.Name] = l
				e.lemmaPkg[l.Name] = p.PkgPath
			}
		}
	}
	return nil
}

// resolvePkgPath maps a package name or path used in an extern key to the import path.
func (e *Engine) resolvePkgPath(pk string) string {
	if _, ok := e.pkgs[pk]; ok {
		return pk
	}
	if p := e.findTypesPackage(pk); p != nil {
		return p.Path()
	}
	return pk
}

func (e *Engine) findDecl(pk, key string) *ast.FuncDecl {
	p := e.pkgs[pk]
	if p == nil || p.TypesInfo == nil || !strings.HasPrefix(pk, "honnef.co/go/tools") {
		return nil
	}
	_, fd := findFunc(p, key)
	return fd
}

func (e *Engine) findFuncObj(pk, key string) *types.Func {
	p := e.pkgs[pk]
	if p == nil || p.Types == nil {
		tp := e.findTypesPackage(pk)
		if tp == nil {
			return nil
		}
		return lookupFuncInTypes(tp, key)
	}
	return lookupFuncInTypes(p.Types, key)
}

func lookupFuncInTypes(tp *types.Package, key string) *types.Func {
	if strings.HasPrefix(key, "(") {
		end := strings.Index(key, ")")
		tn := strings.TrimPrefix(key[1:end], "*")
		mn := key[end+2:]
		if i := strings.Index(mn, "$"); i >= 0 {
			return nil
		}
		obj, _ := tp.Scope().Lookup(tn).(*types.TypeName)
		if obj == nil {
			return nil
		}
		o, _, _ := types.LookupFieldOrMethod(types.NewPointer(obj.Type()), true, tp, mn)
		if o == nil {
			o, _, _ = types.LookupFieldOrMethod(obj.Type(), true, tp, mn)
		}
		f, _ := o.(*types.Func)
		return f
	}
	if strings.Contains(key, "$") {
		return nil
	}
	f, _ := tp.Scope().Lookup(key).(*types.Func)
	return f
}

// constTable expands a package-level table variable that is never written into its value.
func (e *Engine) constTable(u *Unit, o *types.Var) (Val, bool) {
	p := e.pkgs[o.Pkg().Path()]
	if p == nil || p.TypesInfo == nil {
		return Val{}, false
	}
	switch o.Type().Underlying().(type) {
	case *types.Array:
	default:
		return Val{}, false
	}
	key := "tbl:" + o.Pkg().Path() + "." + o.Name()
	if v, ok := u.tables[key]; ok {
		return v, v.T != ""
	}
	// find the initialiser and make sure nobody assigns the variable or its elements
	var init ast.Expr
	written := false
	for _, f := range p.Syntax {
		ast.Inspect(f, func(n ast.Node) bool {
			switch x := n.(type) {
			case *ast.ValueSpec:
				for i, nm := range x.Names {
					if p.TypesInfo.Defs[nm] == o && i < len(x.Values) {
						init = x.Values[i]
					}
				}
			case *ast.AssignStmt:
				for _, l := range x.Lhs {
					if rootIdent(l) != nil && p.TypesInfo.ObjectOf(rootIdent(l)) == o {
						written = true
					}
				}
			case *ast.UnaryExpr:
				if x.Op == token.AND {
					if id := rootIdent(x.X); id != nil && p.TypesInfo.ObjectOf(id) == o {
						written = true
					}
				}
			case *ast.IncDecStmt:
				if id := rootIdent(x.X); id != nil && p.TypesInfo.ObjectOf(id) == o {
					written = true
				}
			}
			return true
		})
	}
	cl, ok := init.(*ast.CompositeLit)
	if !ok || written {
		u.tables[key] = Val{}
		return Val{}, false
	}
	saveInfo, savePkg := u.info, u.pkg
	u.info, u.pkg = p.TypesInfo, p
	v := u.evalCompositeLit(newState(), cl, o.Type())
	u.info, u.pkg = saveInfo, savePkg
	// name it
	name := "T_" + mangle(o.Pkg().Name()) + "_" + mangle(o.Name())
	u.d.constant(name, v.So)
	u.d.axiom("table."+name, sEq(name, v.T))
	v.T = name
	u.tables[key] = v
	u.tablesUsed = append(u.tablesUsed, o.Pkg().Name()+"."+o.Name())
	return v, true
}

func rootIdent(e ast.Expr) *ast.Ident {
	for {
		switch x := ast.Unparen(e).(type) {
		case *ast.Ident:
			return x
		case *ast.IndexExpr:
			e = x.X
		case *ast.SelectorExpr:
			e = x.X
		case *ast.SliceExpr:
			e = x.X
		case *ast.StarExpr:
			e = x.X
		default:
			return nil
		}
	}
}

// ---- unit construction ----

type UnitResult struct {
	Name       string
	Key        string
	PkgPath    string
	Obls       []*Obl
	Mismatch   string // non-empty: loop/assert clauses did not fit; verified without them
	Outside    string // non-empty: function left the supported subset
	Warnings   []string
	Abstracted []string
	Trusted    []string
	Tables     []string
	AxiomNames []string
	Pos        string
	WritesAST  bool
}

func (e *Engine) newUnit(p *packages.Package, ct *Contract) *Unit {
	d := newDecls()
	u := &Unit{
		eng: e, pkg: p, info: p.TypesInfo, contract: ct, d: d, sc: newSortCtx(d),
		heapSorts: map[string]string{}, callN: map[string]int{}, safeN: map[string]int{},
		closures: map[types.Object]*ast.FuncLit{}, litKeys: map[*ast.FuncLit]string{},
		ghostDone: map[string]bool{}, trustedUsed: map[string]bool{}, usedContracts: map[string]bool{},
		tables: map[string]Val{}, elemAlias: map[types.Object]elemAlias{},
		onPos: map[*CallAssert][]token.Pos{}, matchedCA: map[*CallAssert]bool{},
	}
	return u
}

// verifyFunc verifies one function against its contract. If the contract's loop clauses or
// in-body assertions no longer fit the function (the function was restructured), the function
// is verified again with those clauses dropped, so that its pre/postconditions, frame and
// safety obligations are still generated under their stable names.
func (e *Engine) verifyFunc(p *packages.Package, ct *Contract) *UnitResult {
	res := e.verifyFunc1(p, ct)
	if res.Outside == "" || (len(ct.Loops) == 0 && len(ct.CallAsserts) == 0 && len(ct.ReturnAsserts) == 0) {
		return res
	}
	stripped := *ct
	stripped.Loops = map[int]*LoopSpec{}
	stripped.CallAsserts = nil
	stripped.ReturnAsserts = nil
	res2 := e.verifyFunc1(p, &stripped)
	if res2.Outside != "" {
		return res
	}
	res2.Mismatch = res.Outside
	res2.Warnings = append(res2.Warnings, "loop/assert clauses of the contract no longer fit the function ("+res.Outside+"); verified without them")
	return res2
}

func (e *Engine) verifyFunc1(p *packages.Package, ct *Contract) (res *UnitResult) {
	u := e.newUnit(p, ct)
	u.name = p.Types.Name() + "." + ct.Key
	u.curFnKey = p.PkgPath + "." + ct.Key
	res = &UnitResult{Name: u.name, Key: ct.Key, PkgPath: p.PkgPath}
	defer func() {
		if r := recover(); r != nil {
			switch x := r.(type) {
			case unsupportedErr:
				res.Outside = fmt.Sprintf("%s: %s", u.posStr(x.pos), x.msg)
			case specErr:
				res.Outside = "contract error: " + x.msg
			default:
				panic(r)
			}
		}
		res.Obls = u.obls
		res.WritesAST = u.astWrite
		res.Warnings = u.warnings
		res.Abstracted = u.abstracted
		res.Tables = u.tablesUsed
		for k := range u.trustedUsed {
			res.Trusted = append(res.Trusted, k)
		}
		sort.Strings(res.Trusted)
		res.AxiomNames = u.d.axiomNames
	}()
	node, fd := findFunc(p, ct.Key)
	if node == nil {
		res.Outside = "function not found in package (renamed or removed?)"
		if fd != nil {
			res.Outside = "function literal not found inside " + fd.Name.Name
		}
		return
	}
	res.Pos = u.posStr(node.Pos())
	u.fnNode = node
	var ftype *ast.FuncType
	switch x := node.(type) {
	case *ast.FuncDecl:
		u.body = x.Body
		ftype = x.Type
		obj := p.TypesInfo.Defs[x.Name].(*types.Func)
		u.sig = obj.Type().(*types.Signature)
	case *ast.FuncLit:
		u.body = x.Body
		ftype = x.Type
		u.sig = p.TypesInfo.TypeOf(x).(*types.Signature)
	}
	u.ftype = ftype
	u.returnOrd = map[*ast.ReturnStmt]int{}
	ast.Inspect(u.body, func(n ast.Node) bool {
		switch x := n.(type) {
		case *ast.FuncLit:
			return false
		case *ast.ReturnStmt:
			u.returnOrd[x] = len(u.returnOrd) + 1
		}
		return true
	})
	base := strings.Split(ct.Key, "$")[0]
	_, topDecl := findFunc(p, base)
	litKeysOf(topDecl, base, u.litKeys)
	// variables of the enclosing function that hold exactly one function literal
	if topDecl != nil && topDecl.Body != nil {
		multi := map[types.Object]bool{}
		ast.Inspect(topDecl.Body, func(n ast.Node) bool {
			as, ok := n.(*ast.AssignStmt)
			if !ok {
				return true
			}
			for i, r := range as.Rhs {
				lit, ok := ast.Unparen(r).(*ast.FuncLit)
				if !ok || i >= len(as.Lhs) {
					continue
				}
				if id, ok := as.Lhs[i].(*ast.Ident); ok {
					if obj := p.TypesInfo.ObjectOf(id); obj != nil {
						if _, dup := u.closures[obj]; dup {
							multi[obj] = true
						}
						u.closures[obj] = lit
					}
				}
			}
			return true
		})
		for o := range multi {
			delete(u.closures, o)
		}
	}

	st := newState()
	u.entry = st
	// allocation map exists from the start
	u.alloc(st)
	// receiver and parameters
	bindInput := func(v *types.Var, name string) {
		if v == nil {
			return
		}
		if name == "" || name == "_" {
			name = "anon"
		}
		val := u.mkVal(u.d.constant(mangle(name)+"$in", u.sortOf(v.Type())), v.Type())
		// make unique if it collides
		if _, dup := st.ghost["in:"+name]; dup {
			val = u.mkVal(u.fresh(name+"$in", u.sortOf(v.Type())), v.Type())
		}
		st.ghost["in:"+name] = Val{T: val.T, So: val.So}
		st.vars[v] = val
		st.assume(u.typeInv(val))
		if _, ok := isPointer(v.Type()); ok {
			st.assume(sImp(sNot(sEq(val.T, "0")), sAnd(app("select", u.alloc(st), val.T), app(">", val.T, "0"))))
		}
		u.inputs = append(u.inputs, InputVar{Name: name, Term: val.T, Sort: val.So, GoType: typeString(v.Type())})
	}
	if u.sig.Recv() != nil {
		bindInput(u.sig.Recv(), u.sig.Recv().Name())
	}
	for i := 0; i < u.sig.Params().Len(); i++ {
		bindInput(u.sig.Params().At(i), u.sig.Params().At(i).Name())
	}
	// captured variables of a function literal
	if lit, ok := node.(*ast.FuncLit); ok {
		for _, v := range freeVars(p.TypesInfo, lit) {
			bindInput(v, v.Name())
			u.captured = append(u.captured, v)
		}
	}
	for k := range st.ghost {
		if strings.HasPrefix(k, "in:") {
			delete(st.ghost, k)
		}
	}
	// results
	for i := 0; i < u.sig.Results().Len(); i++ {
		r := u.sig.Results().At(i)
		u.results = append(u.results, r)
		if r.Name() != "" && r.Name() != "_" {
			st.vars[r] = u.zero(r.Type())
		}
	}
	// group axioms and lemmas requested by the contract
	u.addAxioms(p, ct.Uses)
	// requires
	env := u.funcEnv(st, nil)
	for _, r := range ct.Requires {
		for _, cj := range splitConj(r.Expr) {
			t, err := u.trySpec(env, cj)
			if err != nil {
				u.unsupported(node.Pos(), "requires %s: %v", r.Text, err)
			}
			st.assume(t)
		}
	}
	// vacuity probe: the preconditions (and type invariants) must be satisfiable
	u.obls = append(u.obls, &Obl{Name: u.name + "#vacuity.requires", Kind: "vacuity", Unit: u.name, Pos: res.Pos, Hyps: st.hyps[:len(st.hyps):len(st.hyps)], Goal: "false", GoalSrc: "requires are satisfiable (expected: sat)", Decls: u.d, Inputs: u.inputs, ExpectSat: true})
	u.entry = st.clone()
	// keep entry heap in sync with lazily created heap constants
	cur := st
	fr := u.pushFrame(frFunc)
	ft := u.execBlock(cur, u.body.List)
	u.popFrame()
	exits := fr.exits
	if ft != nil && !isFalse(ft) {
		var rs []Val
		for _, r := range u.results {
			if v, ok := ft.vars[r]; ok {
				rs = append(rs, v)
			} else {
				rs = append(rs, u.zero(r.Type()))
			}
		}
		exits = append(exits, Exit{kind: exReturn, st: ft, results: rs})
	}
	for i, ex := range exits {
		u.checkExit(i+1, ex, node.Pos())
	}
	// an `at call f on "text"` clause that found no call: the contract no longer fits
	for _, ca := range ct.CallAsserts {
		if ca.On != "" && !u.matchedCA[ca] {
			lbl := ""
			if len(ca.Clauses) > 0 {
				lbl = ca.Clauses[0].Label
			}
			u.unsupported(node.Pos(), "at call %s on %q assert [%s]: the function has no such call any more", ca.Callee, ca.On, lbl)
		}
	}
	return
}

// freeVars returns the variables a function literal captures from enclosing functions.
func freeVars(info *types.Info, lit *ast.FuncLit) []*types.Var {
	var out []*types.Var
	seen := map[*types.Var]bool{}
	ast.Inspect(lit.Body, func(n ast.Node) bool {
		id, ok := n.(*ast.Ident)
		if !ok {
			return true
		}
		v, ok := info.Uses[id].(*types.Var)
		if !ok || v.IsField() || seen[v] {
			return true
		}
		if v.Pkg() != nil && v.Parent() == v.Pkg().Scope() {
			return true
		}
		if v.Pos() >= lit.Pos() && v.Pos() < lit.End() {
			return true
		}
		seen[v] = true
		out = append(out, v)
		return true
	})
	sort.Slice(out, func(i, j int) bool { return out[i].Pos() < out[j].Pos() })
	return out
}

// funcEnv: environment for function-level clauses.
func (u *Unit) funcEnv(st, old *State) *SpecEnv {
	env := &SpecEnv{u: u, st: st, old: old, names: map[string]Val{}, bound: map[string]Val{}, home: u.eng.pkgs[u.contractPkg()]}
	if u.ftype != nil {
		env.scope = u.info.Scopes[u.ftype]
		env.pos = u.body.Rbrace
	}
	return env
}

func (u *Unit) contractPkg() string {
	if u.contract != nil {
		return u.contract.PkgPath
	}
	return u.pkg.PkgPath
}

func (u *Unit) funcEnvAt(st *State, pos token.Pos) *SpecEnv {
	env := u.funcEnv(st, u.entry)
	if sc := u.pkg.Types.Scope().Innermost(pos); sc != nil {
		env.scope = sc
		env.pos = pos
	}
	return env
}

func (u *Unit) checkExit(k int, ex Exit, pos token.Pos) {
	st := ex.st
	ct := u.contract
	env := u.funcEnv(st, u.entry)
	env.results = ex.results
	// parameters and the receiver denote their values at function entry
	if u.sig.Recv() != nil {
		if v, ok := u.entry.vars[u.sig.Recv()]; ok && u.sig.Recv().Name() != "" {
			env.names[u.sig.Recv().Name()] = v
		}
	}
	env.oldNames = map[string]Val{}
	for i := 0; i < u.sig.Params().Len(); i++ {
		p := u.sig.Params().At(i)
		if v, ok := u.entry.vars[p]; ok && p.Name() != "" && p.Name() != "_" {
			written := false
			for _, w := range ct.Writes {
				if w == p.Name() {
					written = true
				}
			}
			if written {
				// out-parameter: the name denotes the final contents, old(name) the contents at entry
				if cur, ok := st.vars[p]; ok {
					env.names[p.Name()] = cur
				}
				env.oldNames[p.Name()] = v
				env.names["old_"+p.Name()] = v
			} else {
				env.names[p.Name()] = v
			}
		}
	}
	for i, r := range u.results {
		if r.Name() != "" && r.Name() != "_" && i < len(ex.results) {
			env.names[r.Name()] = ex.results[i]
		}
	}
	suffix := fmt.Sprintf("@r%d", k)
	for _, w := range ct.Writes {
		for i := 0; i < u.sig.Params().Len(); i++ {
			p := u.sig.Params().At(i)
			if p.Name() != w {
				continue
			}
			cur, ok1 := st.vars[p]
			ent, ok2 := u.entry.vars[p]
			if ok1 && ok2 {
				if _, isSlice := p.Type().Underlying().(*types.Slice); isSlice {
					u.oblige("frame", "writes."+w+suffix, pos, st, sEq(app("slen_"+cur.So, cur.T), app("slen_"+ent.So, ent.T)), "out-parameter "+w+" keeps its length (it must still denote the caller's slice)")
				}
			}
		}
	}
	for i, e := range ct.Ensures {
		u.checkClause(env, e, "post", labelOr(e.Label, fmt.Sprint(i+1))+suffix, pos, st, false)
	}
	for i, a := range ct.Always {
		u.checkClause(env, a, "always", labelOr(a.Label, fmt.Sprint(i+1))+suffix, pos, st, false)
	}
	u.checkFrame(st, env, suffix, pos)
}

// checkFrame: everything the body wrote must be covered by the modifies clause.
// allowedTargets resolves modifies targets into heap key -> allowed references ("*" = any).
func (u *Unit) allowedTargets(mods []string, eenvp *SpecEnv, pos token.Pos) map[string][]string {
	allowed := map[string][]string{}
	eenv := *eenvp
	for _, m := range mods {
		if m == "heap" {
			allowed["*"] = []string{"*"}
			continue
		}
		if strings.HasPrefix(m, "ghost.") {
			key, _ := u.ghostVarKey(eenv.home, strings.TrimPrefix(m, "ghost."))
			allowed[key] = []string{"*"}
			continue
		}
		if strings.HasPrefix(m, "global.") {
			name := strings.TrimPrefix(m, "global.")
			if obj, ok := u.pkg.Types.Scope().Lookup(name).(*types.Var); ok {
				allowed[u.globalKey(obj)] = []string{"*"}
			}
			continue
		}
		e, err := parseSpecExpr(m)
		if err != nil {
			u.unsupported(pos, "modifies %s: %v", m, err)
		}
		func() {
			defer func() {
				if r := recover(); r != nil {
					if se, ok := r.(specErr); ok {
						u.unsupported(pos, "modifies %s: %s", m, se.msg)
					}
					panic(r)
				}
			}()
			switch x := e.(type) {
			case *SDeref:
				p := eenv.eval(x.X)
				pt, _ := isPointer(p.Ty)
				if pt == nil {
					u.unsupported(pos, "modifies %s: not a pointer", m)
				}
				if s, ok := isStructValue(pt.Elem()); ok {
					so := u.sortOf(pt.Elem())
					for i := 0; i < s.NumFields(); i++ {
						k := u.heapKeyField(so, s.Field(i).Name())
						allowed[k] = append(allowed[k], p.T)
					}
				} else {
					k := "H_ptr_" + mangle(u.sortOf(pt.Elem()))
					allowed[k] = append(allowed[k], p.T)
				}
			case *SSel:
				if inner, ok := x.X.(*SSel); ok {
					if id, ok := inner.X.(*SIdent); ok {
						if _, isVal := eenv.lookupValue(id.Name); !isVal && eenv.importedPkg(id.Name) != nil {
							if ty := u.tryResolveNamed(eenv.home, id.Name+"."+inner.Name); ty != nil {
								if gk, _, _, ok := u.ghostFieldKey(types.NewPointer(ty), x.Name); ok {
									allowed[gk] = []string{"*"}
									return
								}
								allowed[u.heapKeyField(u.sortOf(ty), x.Name)] = []string{"*"}
								return
							}
						}
					}
				}
				if id, ok := x.X.(*SIdent); ok {
					if _, isVal := eenv.lookupValue(id.Name); !isVal {
						if tn, ok := u.pkg.Types.Scope().Lookup(id.Name).(*types.TypeName); ok {
							if gk, _, _, ok := u.ghostFieldKey(types.NewPointer(tn.Type()), x.Name); ok {
								allowed[gk] = []string{"*"}
								return
							}
							allowed[u.heapKeyField(u.sortOf(tn.Type()), x.Name)] = []string{"*"}
							return
						}
					}
				}
				base := eenv.eval(x.X)
				pt, _ := isPointer(base.Ty)
				if pt == nil {
					u.unsupported(pos, "modifies %s: base is not a pointer", m)
				}
				if gk, gs, _, ok := u.ghostFieldKey(base.Ty, x.Name); ok {
					u.heapGet(u.entry, gk, gs)
					allowed[gk] = append(allowed[gk], base.T)
					return
				}
				k := u.heapKeyField(u.sortOf(pt.Elem()), x.Name)
				allowed[k] = append(allowed[k], base.T)
			case *SIdent:
				allowed["var:"+x.Name] = []string{"*"}
			default:
				u.unsupported(pos, "modifies %s: unsupported target", m)
			}
		}()
	}
	return allowed
}

func (u *Unit) checkFrame(st *State, env *SpecEnv, suffix string, pos token.Pos) {
	ct := u.contract
	eenv := *env
	eenv.st = u.entry
	allowed := u.allowedTargets(ct.Modifies, &eenv, pos)
	if _, any := allowed["*"]; any {
		return
	}
	if st.epoch != u.entry.epoch {
		u.oblige("frame", "heap"+suffix, pos, st, "false", "the body calls code that may modify the whole heap, but modifies does not say `heap`")
		return
	}
	entryAlloc := u.alloc(u.entry)
	var keys []string
	for k := range st.heap {
		keys = append(keys, k)
	}
	sort.Strings(keys)
	for _, k := range keys {
		if k == allocKey {
			continue
		}
		end := st.heap[k]
		start, ok := u.entry.heap[k]
		if !ok {
			start = u.heapGet(u.entry, k, u.heapSorts[k])
		}
		if end == start {
			continue
		}
		refs := allowed[k]
		if len(refs) == 1 && refs[0] == "*" {
			continue
		}
		if strings.HasPrefix(k, "G_") || strings.HasPrefix(k, "GV_") {
			u.oblige("frame", strings.TrimPrefix(k, "G_")+suffix, pos, st, sEq(end, start), "global "+k+" unchanged (not in modifies)")
			continue
		}
		u.nfresh++
		r := fmt.Sprintf("r!%d", u.nfresh)
		var ex []string
		for _, a := range refs {
			ex = append(ex, sNot(sEq(r, a)))
		}
		cond := sAnd(append([]string{app("select", entryAlloc, r)}, ex...)...)
		goal := fmt.Sprintf("(forall ((%s Int)) (=> %s (= (select %s %s) (select %s %s))))", r, cond, end, r, start, r)
		u.oblige("frame", strings.TrimPrefix(k, "H_")+suffix, pos, st, goal, "only the locations listed in modifies change in "+k)
	}
	// captured variables
	for _, v := range u.captured {
		endV, ok := st.vars[v]
		startV := u.entry.vars[v]
		if !ok || endV.T == startV.T {
			continue
		}
		if _, ok := allowed["var:"+v.Name()]; ok {
			continue
		}
		u.oblige("frame", "var."+v.Name()+suffix, pos, st, sEq(endV.T, startV.T), "captured variable "+v.Name()+" unchanged (not in modifies)")
	}
}

// addAxioms adds ungrouped axioms of the package and the named groups / lemmas.
func (u *Unit) addAxioms(p *packages.Package, uses []string) {
	cf := u.eng.cfiles[p.PkgPath]
	want := map[string]bool{}
	for _, n := range uses {
		want[n] = true
	}
	addFrom := func(cf *ContractFile, home *packages.Package) {
		if cf == nil {
			return
		}
		for i, a := range cf.Axioms {
			if a.Group != "" && !want[a.Group] && !want[a.Name] {
				continue
			}
			if a.Group == "" && a.Name != "" && false {
				continue
			}
			env := &SpecEnv{u: u, st: newState(), home: home, bound: map[string]Val{}, names: map[string]Val{}}
			t, err := u.trySpec(env, a.Expr)
			if err != nil {
				panic(specErr{fmt.Sprintf("%s:%d: axiom: %v", a.File, a.Line, err)})
			}
			name := a.Name
			if name == "" {
				name = fmt.Sprintf("%s.%d", a.Group, i)
			}
			u.d.axiom("axiom."+lastSeg(home.PkgPath)+"."+name, t)
			u.axiomsUsed = append(u.axiomsUsed, fmt.Sprintf("%s:%d %s", relPath(u.eng.repo, a.File), a.Line, a.Text))
		}
	}
	addFrom(cf, p)
	// every name in `uses` must denote something
	for _, n := range uses {
		known := strings.Contains(n, ":")
		if _, ok := u.eng.lemmaPkg[n]; ok {
			known = true
		}
		if cf != nil {
			for _, a := range cf.Axioms {
				if a.Group == n || a.Name == n {
					known = true
				}
			}
		}
		if !known {
			panic(specErr{fmt.Sprintf("uses %s: no such axiom group, axiom or lemma in package %s", n, p.PkgPath)})
		}
	}
	// lemmas (proved separately) usable as axioms
	for _, n := range uses {
		pk, ok := u.eng.lemmaPkg[n]
		if !ok {
			// group from another package: "pkgname:group"
			continue
		}
		l := u.eng.lemmas[pk+"."+n]
		home := u.eng.pkgs[pk]
		t := u.lemmaFormula(l, home)
		u.d.axiom("lemma."+n, t)
	}
	// groups from other packages: "pkg:group"
	for _, n := range uses {
		if i := strings.Index(n, ":"); i > 0 {
			pkName, grp := n[:i], n[i+1:]
			found := false
			for path, ocf := range u.eng.cfiles {
				if lastSeg(path) == pkName && ocf != nil {
					for _, a := range ocf.Axioms {
						if a.Group == grp || a.Name == grp {
							found = true
						}
					}
					want[grp] = true
					addFrom(ocf, u.eng.pkgs[path])
				}
			}
			if !found {
				panic(specErr{fmt.Sprintf("uses %s: no such axiom group", n)})
			}
		}
	}
}

func relPath(root, p string) string {
	return strings.TrimPrefix(p, root+"/")
}

// lemmaFormula: forall params :: requires ==> ensures
func (u *Unit) lemmaFormula(l *Lemma, home *packages.Package) string {
	env := &SpecEnv{u: u, st: newState(), home: home, bound: map[string]Val{}, names: map[string]Val{}}
	var decls []string
	for _, p := range l.Params {
		ty, so := u.resolveType(home, p.T)
		u.nfresh++
		bn := fmt.Sprintf("%s!l%d", p.Name, u.nfresh)
		env.bound[p.Name] = Val{T: bn, Ty: ty, So: so}
		decls = append(decls, fmt.Sprintf("(%s %s)", bn, so))
	}
	var pre, post []string
	// the lemma was proved for parameter values satisfying their type invariants only
	for _, p := range l.Params {
		v := env.bound[p.Name]
		if inv := u.lemmaGuard(v); inv != "true" {
			pre = append(pre, inv)
		}
	}
	for _, r := range l.Requires {
		pre = append(pre, env.evalBool(r.Expr))
	}
	for _, r := range l.Ensures {
		post = append(post, env.evalBool(r.Expr))
	}
	body := sImp(sAnd(pre...), sAnd(post...))
	if len(decls) == 0 {
		return body
	}
	var pats []string
	for _, tr := range l.Triggers {
		var ts []string
		for _, t := range tr {
			ts = append(ts, env.eval(t).T)
		}
		pats = append(pats, ":pattern ("+strings.Join(ts, " ")+")")
	}
	if len(pats) > 0 {
		body = "(! " + body + " " + strings.Join(pats, " ") + ")"
	}
	return fmt.Sprintf("(forall (%s) %s)", strings.Join(decls, " "), body)
}

// verifyLemma proves a lemma (optionally by induction on an Int parameter).
func (e *Engine) verifyLemma(p *packages.Package, l *Lemma) (res *UnitResult) {
	u := e.newUnit(p, &Contract{Key: "lemma " + l.Name, PkgPath: p.PkgPath, Loops: map[int]*LoopSpec{}, SkipSafe: map[string]bool{}})
	u.name = p.Types.Name() + ".lemma." + l.Name
	res = &UnitResult{Name: u.name, Key: "lemma " + l.Name, PkgPath: p.PkgPath, Pos: fmt.Sprintf("%s:%d", relPath(e.repo, l.File), l.Line)}
	defer func() {
		if r := recover(); r != nil {
			switch x := r.(type) {
			case unsupportedErr:
				res.Outside = x.msg
			case specErr:
				res.Outside = "contract error: " + x.msg
			default:
				panic(r)
			}
		}
		res.Obls = u.obls
		res.AxiomNames = u.d.axiomNames
	}()
	u.addAxioms(p, l.Uses)
	st := newState()
	u.entry = st
	env := &SpecEnv{u: u, st: st, home: p, bound: map[string]Val{}, names: map[string]Val{}}
	for _, prm := range l.Params {
		ty, so := u.resolveType(p, prm.T)
		c := u.d.constant(mangle(prm.Name)+"$in", so)
		v := Val{T: c, Ty: ty, So: so}
		env.names[prm.Name] = v
		if ty != nil {
			st.assume(u.typeInv(v))
		}
		u.inputs = append(u.inputs, InputVar{Name: prm.Name, Term: c, Sort: so})
	}
	for _, r := range l.Requires {
		for _, cj := range splitConj(r.Expr) {
			st.assume(env.evalBool(cj))
		}
	}
	if l.Induct != "" {
		// induction hypothesis: the lemma for all parameter values with a smaller (non-negative) measure
		ienv := &SpecEnv{u: u, st: newState(), home: p, bound: map[string]Val{}, names: map[string]Val{}}
		var decls []string
		for _, prm := range l.Params {
			ty, so := u.resolveType(p, prm.T)
			bn := fmt.Sprintf("%s!ih", prm.Name)
			ienv.bound[prm.Name] = Val{T: bn, Ty: ty, So: so}
			decls = append(decls, fmt.Sprintf("(%s %s)", bn, so))
		}
		me, err := parseSpecExpr(l.Induct)
		if err != nil {
			panic(specErr{"induct: " + err.Error()})
		}
		mIH := ienv.eval(me).T
		mCur := env.eval(me).T
		var pre, post []string
		for _, prm := range l.Params {
			if inv := u.lemmaGuard(ienv.bound[prm.Name]); inv != "true" {
				pre = append(pre, inv)
			}
		}
		for _, r := range l.Requires {
			pre = append(pre, ienv.evalBool(r.Expr))
		}
		for _, r := range l.Ensures {
			post = append(post, ienv.evalBool(r.Expr))
		}
		ih := fmt.Sprintf("(forall (%s) (=> (and (<= 0 %s) (< %s %s)) %s))", strings.Join(decls, " "), mIH, mIH, mCur, sImp(sAnd(pre...), sAnd(post...)))
		st.assume(ih)
	}
	for i, en := range l.Ensures {
		u.checkClause(env, en, "lemma", labelOr(en.Label, fmt.Sprint(i+1)), token.NoPos, st, true)
	}
	return
}

// ---- SMT file emission ----

func (o *Obl) smt(withModel bool, cvc5 bool) string {
	var b strings.Builder
	if cvc5 {
		b.WriteString("(set-option :produce-models true)\n(set-logic ALL)\n")
	} else if withModel {
		b.WriteString("(set-option :produce-models true)\n")
	}
	b.WriteString("; obligation " + o.Name + "\n; " + o.Pos + "\n; goal: " + strings.ReplaceAll(o.GoalSrc, "\n", " ") + "\n")
	b.WriteString(prelude)
	for _, l := range o.Decls.lines {
		b.WriteString(l)
		b.WriteByte('\n')
	}
	for i, a := range o.Decls.axioms {
		fmt.Fprintf(&b, "(assert (! %s :named ax%d)) ; %s\n", a, i, o.Decls.axiomNames[i])
	}
	for i, h := range o.Hyps {
		fmt.Fprintf(&b, "(assert (! %s :named h%d))\n", h, i)
	}
	fmt.Fprintf(&b, "(assert (! (not %s) :named goal))\n", o.Goal)
	b.WriteString("(check-sat)\n")
	if withModel && len(o.Inputs) > 0 {
		var ts []string
		for _, in := range o.Inputs {
			ts = append(ts, in.Term)
		}
		fmt.Fprintf(&b, "(get-value (%s))\n", strings.Join(ts, " "))
	}
	return b.String()
}

func writeFile(path, content string) error {
	if err := os.MkdirAll(filepath.Dir(path), 0o755); err != nil {
		return err
	}
	return os.WriteFile(path, []byte(content), 0o644)
}

// frameFormula: every reference allocated in allocTerm and not in refs has the same content in start and end.
func (u *Unit) frameFormula(start, end, allocTerm string, refs []string) string {
	u.nfresh++
	r := fmt.Sprintf("r!%d", u.nfresh)
	var ex []string
	for _, a := range refs {
		ex = append(ex, sNot(sEq(r, a)))
	}
	cond := sAnd(append([]string{app("select", allocTerm, r)}, ex...)...)
	return fmt.Sprintf("(forall ((%s Int)) (! (=> %s (= (select %s %s) (select %s %s))) :pattern ((select %s %s))))", r, cond, end, r, start, r, end, r)
}

// loopFrame assumes (check=false) or checks (check=true) the loop's `modifies` clause for the
// heap keys the loop havocs: relative to the state pre at loop entry.
func (u *Unit) loopFrame(ls *LoopSpec, n int, pre, cur *State, mods loopMods, env *SpecEnv, pos token.Pos, check bool) {
	if len(ls.Modifies) == 0 || mods.all {
		return
	}
	penv := *env
	penv.st = pre
	var targets []string
	for _, m := range ls.Modifies {
		if m != "fresh" { // `fresh`: only objects allocated inside the loop are written
			targets = append(targets, m)
		}
	}
	allowed := u.allowedTargets(targets, &penv, pos)
	if _, any := allowed["*"]; any {
		return
	}
	preAlloc := u.alloc(pre)
	for _, k := range mods.heap {
		if k == allocKey || strings.HasPrefix(k, "G_") {
			continue
		}
		refs := allowed[k]
		if len(refs) == 1 && refs[0] == "*" {
			continue
		}
		start := u.heapGet(pre, k, u.heapSorts[k])
		end := u.heapGet(cur, k, u.heapSorts[k])
		f := u.frameFormula(start, end, preAlloc, refs)
		if check {
			u.oblige("inv.keep", fmt.Sprintf("loop%d.frame.%s", n, strings.TrimPrefix(k, "H_")), pos, cur, f, "loop modifies only the listed locations of "+k)
		} else {
			cur.assume(f)
		}
	}
}

// lemmaGuard: the part of a parameter's type invariant that restricts a lemma used as an axiom.
// Well-formedness of slices and maps (len >= 0, ...) holds for every value of a real execution
// and is not repeated; the canonical form of arrays (zero outside the bounds) and integer
// ranges are kept, because terms produced by ghost functions need not satisfy them.
func (u *Unit) lemmaGuard(v Val) string {
	if v.Ty == nil {
		return "true"
	}
	switch v.Ty.Underlying().(type) {
	case *types.Slice, *types.Map:
		return "true"
	}
	return u.typeInv(v)
}
