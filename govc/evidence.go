package main

import (
	"encoding/json"
	"fmt"
	"os"
	"path/filepath"
	"sort"
	"strings"
)

type Report struct {
	Prop, Tier string
	Seed       int
	Verif      string
	Repo       string
	Config     *PropConfig
	Results    []*UnitResult
	Discharged []*Obl
	Refuted    []*Obl
	Regressed  []*Obl
	Unproved   []*Obl
	Known      []*Obl
	Missing    []string
	Outside    []string
	BySolver   map[string]int
	ByKind     map[string]int
	SolverTime float64
	VacuityProbes, VacuityOK, VacuityInconclusive int
	VacuityFailed []string
	LoadS, GenS, SolveS, Wall float64
	Exit       int
	Bounded    []map[string]any
	Sweeps     []map[string]any
	ExtraTrusted []string
	EngineErrors []string
}

var generalAssumptions = []string{
	"machine integers are treated as mathematical integers (no overflow obligations); conversions between integer types are the identity",
	"slices have value semantics (array, offset, length); aliasing between slices sharing a backing array and capacity are not modelled",
	"maps have value semantics (domain, values, cardinality); two variables holding the same map are not tracked as aliases",
	"termination is not proved anywhere; recursive calls use the callee's contract as induction hypothesis",
	"strings are SMT strings; byte indexing assumes ASCII content",
	"pointer-typed values loaded from the heap are not assumed allocated; fresh allocations are distinct from all previously allocated references",
	"a function marked pure is modelled as an uninterpreted function of its arguments (it must not depend on mutable heap state)",
	"extern contracts (standard library, x/tools) and axioms listed in trusted_base are assumed, not proved",
	"solver answers unsat from z3 4.8.12, z3 5.1.0 or cvc5 1.0.3 are trusted",
}

func (r *Report) writeEvidence() error {
	type sample struct {
		Name   string `json:"obligation"`
		Kind   string `json:"kind"`
		Pos    string `json:"pos"`
		Goal   string `json:"goal"`
		Hyps   int    `json:"hypotheses"`
		Solver string `json:"solver"`
		TimeS  float64 `json:"time_s"`
	}
	var samples []sample
	step := 1
	if len(r.Discharged) > 12 {
		step = len(r.Discharged) / 12
	}
	for i := 0; i < len(r.Discharged); i += step {
		o := r.Discharged[i]
		samples = append(samples, sample{o.Name, o.Kind, o.Pos, truncate(o.GoalSrc, 300), len(o.Hyps), o.Solver, o.Time})
	}
	trusted := map[string]bool{}
	var funcs, outside, abstracted, warnings, tables []string
	axioms := map[string]bool{}
	for _, u := range r.Results {
		funcs = append(funcs, fmt.Sprintf("%s (%s): %d obligations", u.Name, u.Pos, countReal(u.Obls)))
		for _, t := range u.Trusted {
			trusted["assumed contract: "+t] = true
		}
		for _, a := range u.AxiomNames {
			if strings.HasPrefix(a, "axiom.") || strings.HasPrefix(a, "table.") {
				axioms[a] = true
			}
		}
		abstracted = append(abstracted, prefixAll(u.Name+": ", u.Abstracted)...)
		warnings = append(warnings, prefixAll(u.Name+": ", u.Warnings)...)
		tables = append(tables, u.Tables...)
		if u.Outside != "" {
			outside = append(outside, u.Name+": "+u.Outside)
		}
	}
	var tb []string
	for k := range trusted {
		tb = append(tb, k)
	}
	for k := range axioms {
		tb = append(tb, k)
	}
	tb = append(tb, r.ExtraTrusted...)
	sort.Strings(tb)
	if tb == nil {
		tb = []string{}
	}
	slow := []map[string]any{}
	ds := append([]*Obl{}, r.Discharged...)
	sort.Slice(ds, func(i, j int) bool { return ds[i].Time > ds[j].Time })
	for i := 0; i < len(ds) && i < 5; i++ {
		slow = append(slow, map[string]any{"obligation": ds[i].Name, "time_s": ds[i].Time, "solver": ds[i].Solver})
	}
	names := func(os []*Obl) []string {
		out := []string{}
		for _, o := range os {
			out = append(out, o.Name+" ["+o.Status+"]")
		}
		return out
	}
	cov := map[string]any{
		"obligations":  len(r.Discharged),
		"discharged":   len(r.Discharged),
		"checker_cmd":  fmt.Sprintf("govc check -prop %s -tier %s (weakest-precondition VCs over go/ast+go/types of %s; solvers raced: z3-new 5.1.0, z3 4.8.12, cvc5 1.0.3)", r.Prop, r.Tier, r.Repo),
		"trusted_base": tb,
		"samples":      samples,
		"functions_under_contract": funcs,
		"functions_outside_subset": outside,
		"obligations_by_kind": r.ByKind,
		"by_solver":    r.BySolver,
		"solver_time_s": r.SolverTime,
		"slowest":      slow,
		"vacuity":      map[string]any{"requires_probes": r.VacuityProbes, "satisfiable": r.VacuityOK, "inconclusive": r.VacuityInconclusive, "vacuous": r.VacuityFailed},
		"abstracted_statements": abstracted,
		"engine_warnings": capList(warnings, 150),
		"constant_tables_read_from_source": tables,
		"refuted":      names(r.Refuted),
		"regressed":    names(r.Regressed),
		"unproved_not_counted": names(r.Unproved),
		"known_findings": names(r.Known),
		"baseline_obligations_not_generated": r.Missing,
		"timing":       map[string]float64{"load_s": r.LoadS, "vcgen_s": r.GenS, "solve_s": r.SolveS},
		"bounded":      r.Bounded,
		"sweeps":       r.Sweeps,
	}
	if r.Config != nil {
		cov["not_decided"] = r.Config.NotDecided
		cov["paper_steps"] = r.Config.PaperSteps
	}
	assumptions := append([]string{}, generalAssumptions...)
	if r.Config != nil {
		for _, p := range r.Config.PaperSteps {
			assumptions = append(assumptions, "paper step (not machine checked): "+p)
		}
	}
	ev := map[string]any{
		"property_id": r.Prop,
		"tier":        r.Tier,
		"seed":        r.Seed,
		"level":       "proof",
		"coverage":    cov,
		"assumptions": assumptions,
		"wall_s":      r.Wall,
		"violations":  len(r.Refuted) + len(r.Regressed),
	}
	data, err := json.MarshalIndent(ev, "", " ")
	if err != nil {
		return err
	}
	// evidence describes /repo; a run against a scratch copy (seeded changes, selftest) must
	// not overwrite it
	dir := filepath.Join(r.Verif, "evidence")
	if filepath.Clean(r.Repo) != "/repo" {
		dir = filepath.Join(r.Verif, "replays", "evidence-of-scratch-runs")
	}
	os.MkdirAll(dir, 0o755)
	return os.WriteFile(filepath.Join(dir, r.Prop+".json"), data, 0o644)
}

func countReal(os []*Obl) int {
	n := 0
	for _, o := range os {
		if !o.ExpectSat {
			n++
		}
	}
	return n
}

func prefixAll(p string, xs []string) []string {
	var out []string
	for _, x := range xs {
		out = append(out, p+x)
	}
	return out
}

// writeReplay writes the replay file of a failed obligation and returns its path.
func (r *Report) writeReplay(o *Obl) string {
	dir := filepath.Join(r.Verif, "replays", r.Prop)
	os.MkdirAll(dir, 0o755)
	path := filepath.Join(dir, safeFileName(o.Name)+".json")
	smt := ""
	if o.File != "" {
		if b, err := os.ReadFile(o.File); err == nil {
			smtPath := filepath.Join(dir, safeFileName(o.Name)+".smt2")
			os.WriteFile(smtPath, b, 0o644)
			smt = smtPath
		}
	}
	rp := map[string]any{
		"property_id": r.Prop,
		"obligation":  o.Name,
		"kind":        o.Kind,
		"function":    o.Unit,
		"position":    o.Pos,
		"goal":        o.GoalSrc,
		"status":      o.Status,
		"solver":      o.Solver,
		"solver_output": o.Raw,
		"model_inputs": o.Model,
		"inputs":      o.Inputs,
		"smt_file":    smt,
		"pkg_dir":     o.PkgDir,
		"replayed_on_real_code": false,
	}
	data, _ := json.MarshalIndent(rp, "", " ")
	os.WriteFile(path, data, 0o644)
	return path
}

// replayOnRealCode tries to reproduce a refutation on the real code; returns true when a
// failing input was demonstrated. (Drivers are registered in replay.go.)
func replayOnRealCode(r *Report, o *Obl, path string) bool {
	// a driver may carry its own scenario for obligations that fail without a model
	return runReplayDriver(r, o, path)
}

// capList keeps the first n entries of a long list and says how many were dropped.
func capList(xs []string, n int) []string {
	if len(xs) <= n {
		return xs
	}
	out := append([]string{}, xs[:n]...)
	return append(out, fmt.Sprintf("... and %d more (calls without contract inside units of the zero-annotation sweep; each havocs the heap)", len(xs)-n))
}
