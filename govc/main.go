package main

import (
	"runtime/pprof"
	"context"
	"encoding/json"
	"flag"
	"fmt"
	"go/token"
	"os"
	"path/filepath"
	"sort"
	"strconv"
	"strings"
	"time"

	"golang.org/x/tools/go/packages"
)

type BoundedSpec struct {
	Name     string            `json:"name"`
	What     string            `json:"what"`
	TestFile string            `json:"test_file"` // relative to /verif
	PkgDir   string            `json:"pkg_dir"`   // relative to the repository
	Run      string            `json:"run"`
	Quick    map[string]string `json:"quick_env"`
	Thorough map[string]string `json:"thorough_env"`
	TimeoutS int               `json:"timeout_s"`
}

type PropConfig struct {
	Packages []string `json:"packages"`
	Sweeps   []string `json:"sweeps,omitempty"`
	SweepPackages []string `json:"sweep_packages,omitempty"`
	Bounded  []BoundedSpec `json:"bounded,omitempty"`
	Note     string   `json:"note,omitempty"`
	NotDecided []string `json:"not_decided,omitempty"`
	PaperSteps []string `json:"paper_steps,omitempty"`
}

type KnownFinding struct {
	Kind       string // finding | fixed
	Property   string
	Obligation string
	Text       string
}

func readKnownFindings(path string) []KnownFinding {
	data, err := os.ReadFile(path)
	if err != nil {
		return nil
	}
	var out []KnownFinding
	for _, l := range strings.Split(string(data), "\n") {
		l = strings.TrimSpace(l)
		if l == "" || strings.HasPrefix(l, "#") {
			continue
		}
		var kf KnownFinding
		switch {
		case strings.HasPrefix(l, "finding:"):
			kf.Kind = "finding"
			l = strings.TrimSpace(strings.TrimPrefix(l, "finding:"))
		case strings.HasPrefix(l, "fixed:"):
			kf.Kind = "fixed"
			l = strings.TrimSpace(strings.TrimPrefix(l, "fixed:"))
		default:
			continue
		}
		for _, f := range strings.Fields(l) {
			if strings.HasPrefix(f, "property=") {
				kf.Property = strings.TrimPrefix(f, "property=")
			} else if strings.HasPrefix(f, "obligation=") {
				kf.Obligation = strings.TrimPrefix(f, "obligation=")
			}
		}
		kf.Text = l
		out = append(out, kf)
	}
	return out
}

func readBaseline(path string) map[string]bool {
	data, err := os.ReadFile(path)
	if err != nil {
		return nil
	}
	m := map[string]bool{}
	for _, l := range strings.Split(string(data), "\n") {
		l = strings.TrimSpace(l)
		if l != "" && !strings.HasPrefix(l, "#") {
			m[l] = true
		}
	}
	return m
}

func main() {
	if pf := os.Getenv("GOVC_PROF"); pf != "" {
		f, _ := os.Create(pf)
		pprof.StartCPUProfile(f)
		defer pprof.StopCPUProfile()
	}
	if len(os.Args) < 2 {
		fmt.Fprintln(os.Stderr, "usage: govc check|list|replay ...")
		os.Exit(2)
	}
	switch os.Args[1] {
	case "check":
		rc := cmdCheck(os.Args[2:])
		pprof.StopCPUProfile()
		os.Exit(rc)
	case "replay":
		os.Exit(cmdReplay(os.Args[2:]))
	case "parse":
		// syntax check of a contract file
		for _, f := range os.Args[2:] {
			if _, err := readContractFile(f, "x"); err != nil {
				fmt.Println(err)
				os.Exit(1)
			}
		}
	default:
		fmt.Fprintln(os.Stderr, "unknown command", os.Args[1])
		os.Exit(2)
	}
}

func cmdCheck(args []string) int {
	fs := flag.NewFlagSet("check", flag.ExitOnError)
	prop := fs.String("prop", "", "property id")
	tier := fs.String("tier", "quick", "quick|thorough")
	repo := fs.String("repo", "/repo", "repository root")
	verif := fs.String("verif", "/verif", "verification root")
	only := fs.String("only", "", "verify only functions whose key contains this string")
	keep := fs.Bool("keep", false, "keep SMT files")
	updateBaseline := fs.Bool("update-baseline", false, "rewrite the baseline obligation list")
	updateSweep := fs.Bool("update-sweep-assumptions", false, "rewrite the list of implementors assumed not to reach non-exhaustive switches")
	verbose := fs.Bool("v", false, "verbose")
	timeoutFlag := fs.Int("timeout", 0, "per-obligation timeout (s)")
	fs.Parse(args)
	t0 := time.Now()
	seed := 0
	if s := os.Getenv("VERIF_SEED"); s != "" {
		seed, _ = strconv.Atoi(s)
	}
	var props map[string]*PropConfig
	data, err := os.ReadFile(filepath.Join(*verif, "props.json"))
	if err != nil {
		fmt.Println("UNDECIDED property=" + *prop + " reason=cannot read props.json")
		return 2
	}
	if err := json.Unmarshal(data, &props); err != nil {
		fmt.Println("UNDECIDED property=" + *prop + " reason=bad props.json: " + err.Error())
		return 2
	}
	pc := props[*prop]
	if pc == nil {
		fmt.Println("UNDECIDED property=" + *prop + " reason=unknown property")
		return 2
	}
	eng := &Engine{fset: token.NewFileSet(), pkgs: map[string]*packages.Package{}, cfiles: map[string]*ContractFile{}, contracts: map[string]*Contract{}, ghosts: map[string]*GhostFn{}, lemmas: map[string]*Lemma{}, lemmaPkg: map[string]string{}, repo: *repo, contractHome: map[*Contract]string{}, immutable: map[string]bool{}, ghostVars: map[string]SVar{}, ghostFields: map[string][]GhostField{}, ghostFieldHome: map[string]string{}}
	if err := eng.load(pc.Packages); err != nil {
		fmt.Printf("UNDECIDED property=%s reason=%v\n", *prop, err)
		return 2
	}
	loadS := time.Since(t0).Seconds()
	// select units
	var results []*UnitResult
	var paths []string
	for p := range eng.cfiles {
		paths = append(paths, p)
	}
	sort.Strings(paths)
	hasProp := func(ps []string) bool {
		for _, p := range ps {
			if p == *prop {
				return true
			}
		}
		return false
	}
	for _, path := range paths {
		cf := eng.cfiles[path]
		p := eng.pkgs[path]
		for _, ct := range cf.Contracts {
			if ct.Extern || ct.Trusted || !hasProp(ct.Props) || strings.HasPrefix(ct.Key, "type:") {
				continue
			}
			if *only != "" && !strings.Contains(ct.Key, *only) {
				continue
			}
			results = append(results, eng.verifyFunc(p, ct))
		}
		for _, l := range cf.Lemmas {
			if !hasProp(l.Props) {
				continue
			}
			if *only != "" && !strings.Contains(l.Name, *only) {
				continue
			}
			results = append(results, eng.verifyLemma(p, l))
		}
	}
	var sweepInfo []map[string]any
	var sweepTrusted []string
	sweepSafetyUnits := 0
	_ = sweepSafetyUnits
	if *only == "" {
		for _, sw := range pc.Sweeps {
			if sw == "safety" {
				var paths []string
				for _, pat := range pc.SweepPackages {
					for path := range eng.pkgs {
						if strings.HasPrefix(path, "honnef.co/go/tools/"+strings.TrimPrefix(strings.TrimSuffix(pat, "/..."), "./")) {
							paths = append(paths, path)
						}
					}
				}
				ss := eng.sweepSafety(paths, os.Getenv("GOVC_SWEEP_ONLY"))
				results = append(results, ss.results...)
				sweepInfo = append(sweepInfo, ss.info)
				sweepSafetyUnits = len(ss.results)
			}
			if sw == "sealed-switches" {
				var paths []string
				for _, pat := range pc.SweepPackages {
					for path := range eng.pkgs {
						if strings.HasPrefix(path, "honnef.co/go/tools/"+strings.TrimPrefix(strings.TrimSuffix(pat, "/..."), "./")) {
							paths = append(paths, path)
						}
					}
				}
				assumed := map[string][]string{}
				apath := filepath.Join(*verif, "sweeps", *prop+".assumed-unreachable.json")
				if data, err := os.ReadFile(apath); err == nil {
					json.Unmarshal(data, &assumed)
				}
				sr := eng.sweepSealedSwitches(paths, assumed)
				if *updateSweep {
					os.MkdirAll(filepath.Dir(apath), 0o755)
					data, _ := json.MarshalIndent(sr.uncovered, "", " ")
					os.WriteFile(apath, data, 0o644)
					fmt.Println("wrote", apath)
				}
				var names []string
				for k := range assumed {
					names = append(names, k)
				}
				sort.Strings(names)
				for _, k := range names {
					sweepTrusted = append(sweepTrusted, fmt.Sprintf("sweep assumption (not checked): at %s the values %s never arrive", k, strings.Join(assumed[k], ", ")))
				}
				ur := &UnitResult{Name: "sweep.sealed-switches", Key: "sweep", Obls: sr.obls}
				results = append(results, ur)
				sr.info["switches_with_panicking_default_and_closed_scrutinee"] = sr.switches
				sr.info["name"] = sw
				sweepInfo = append(sweepInfo, sr.info)
				sweepTrusted = append(sweepTrusted, sr.trusted...)
			}
		}
	}
	genS := time.Since(t0).Seconds() - loadS
	var obls []*Obl
	for _, r := range results {
		if p := eng.pkgs[r.PkgPath]; p != nil && len(p.GoFiles) > 0 {
			for _, o := range r.Obls {
				if o.PkgDir == "" {
					o.PkgDir = filepath.Dir(p.GoFiles[0])
				}
			}
		}
		obls = append(obls, r.Obls...)
	}
	timeout := 10
	if *tier == "thorough" {
		timeout = 60
	}
	if *timeoutFlag > 0 {
		timeout = *timeoutFlag
	}
	dir, _ := os.MkdirTemp("", "govc-"+*prop+"-")
	if !*keep {
		defer os.RemoveAll(dir)
	} else {
		fmt.Println("SMT files in", dir)
	}
	baseline := readBaseline(filepath.Join(*verif, "baseline", *prop+".txt"))
	// obligations of the zero-annotation safety sweep: most are unprovable by construction
	// (arbitrary inputs). Outside -update-baseline only the ones recorded as discharged are
	// attempted; with it, all are attempted once with a short timeout.
	sweepNotAttempted := 0
	{
		var rest, sweepNew []*Obl
		for _, o := range obls {
			if !o.Sweep {
				rest = append(rest, o)
			} else if baseline[o.Name] {
				rest = append(rest, o)
			} else if *updateBaseline {
				sweepNew = append(sweepNew, o)
			} else {
				sweepNotAttempted++
			}
		}
		if len(sweepNew) > 0 {
			solveAll(sweepNew, solveOpts{timeoutS: 3, dir: dir, workers: 8, seed: seed})
			var undecided []string
			for _, o := range sweepNew {
				if o.Status == "unsat" {
					rest = append(rest, o)
				} else {
					sweepNotAttempted++
					undecided = append(undecided, fmt.Sprintf("%-8s %s  (%s)", o.Status, o.Name, o.Pos))
				}
			}
			sort.Strings(undecided)
			os.MkdirAll(filepath.Join(*verif, "sweeps"), 0o755)
			os.WriteFile(filepath.Join(*verif, "sweeps", *prop+".safety-not-discharged.txt"), []byte("# safety-sweep obligations that do not discharge under arbitrary inputs (NOT claimed, NOT findings: most need a precondition)\n"+strings.Join(undecided, "\n")+"\n"), 0o644)
		}
		obls = rest
	}
	for _, si := range sweepInfo {
		if si["name"] == "safety" {
			si["obligations_generated_but_not_claimed"] = sweepNotAttempted
		}
	}
	solveAll(obls, solveOpts{timeoutS: timeout, dir: dir, workers: 6, seed: seed})
	// retry regressions at the thorough timeout before they count
	if *tier == "quick" {
		var retry []*Obl
		for _, o := range obls {
			if (o.Status == "unknown" || o.Status == "timeout") && !o.ExpectSat && (baseline[o.Name] || o.Kind == "assert" || o.Kind == "always") {
				retry = append(retry, o)
			}
		}
		if len(retry) > 0 {
			solveAll(retry, solveOpts{timeoutS: 60, dir: dir, workers: 6, seed: seed})
		}
	}
	solveS := time.Since(t0).Seconds() - loadS - genS

	known := readKnownFindings(filepath.Join(*verif, "known-findings.txt"))
	isKnown := func(name string) *KnownFinding {
		for i := range known {
			if known[i].Kind == "finding" && known[i].Property == *prop && known[i].Obligation == name {
				return &known[i]
			}
		}
		return nil
	}

	// an assertion that is assumed after it is checked (in-body asserts, `always` clauses) must
	// itself be discharged; otherwise everything after it in the same function is conditional
	for _, r := range results {
		blocked := ""
		for _, o := range r.Obls {
			if o.ExpectSat {
				continue
			}
			if blocked != "" && o.Status == "unsat" {
				o.Status = "conditional"
				o.Raw = map[string]string{"note": "depends on the undischarged assertion " + blocked}
				continue
			}
			if blocked == "" && o.Status != "unsat" && (o.Kind == "assert" || o.Kind == "always") {
				blocked = o.Name
			}
		}
	}
	// likewise a loop invariant that is not established or not preserved is nevertheless assumed
	// at the loop head and after the loop: everything generated after its inv.init obligations
	// (the loop body, the other invariants' preservation, the code after the loop) is conditional
	loopOf := func(o *Obl) string {
		if o.Kind != "inv.init" && o.Kind != "inv.keep" {
			return ""
		}
		i := strings.Index(o.Name, "#"+o.Kind+".loop")
		if i < 0 {
			return ""
		}
		rest := o.Name[i+len("#"+o.Kind+".loop"):]
		j := 0
		for j < len(rest) && rest[j] >= '0' && rest[j] <= '9' {
			j++
		}
		return rest[:j]
	}
	for _, r := range results {
		failing := map[string]string{}
		for _, o := range r.Obls {
			if o.ExpectSat || o.Status == "unsat" || o.Status == "conditional" {
				continue
			}
			if l := loopOf(o); l != "" {
				if _, ok := failing[l]; !ok {
					failing[l] = o.Name
				}
			}
		}
		if len(failing) == 0 {
			continue
		}
		blockedBy := ""
		pending := "" // a failing loop whose inv.init group has been passed
		for _, o := range r.Obls {
			if o.ExpectSat {
				continue
			}
			if blockedBy == "" {
				if l := loopOf(o); o.Kind == "inv.init" && failing[l] != "" {
					pending = failing[l]
					continue
				}
				if pending == "" {
					continue
				}
				blockedBy = pending
			}
			if o.Status == "unsat" {
				o.Status = "conditional"
				o.Raw = map[string]string{"note": "depends on the loop invariant " + blockedBy + ", which is not discharged"}
			}
		}
	}
	// a lemma that is used as an axiom must itself be proved: units (functions and other lemmas)
	// that use an unproved lemma are conditional (to a fixpoint over lemma-uses-lemma)
	{
		failed := map[string]string{} // lemma name -> failing obligation
		for changed := true; changed; {
			changed = false
			for _, r := range results {
				if !strings.HasPrefix(r.Key, "lemma ") {
					continue
				}
				name := strings.TrimPrefix(r.Key, "lemma ")
				if _, ok := failed[name]; ok {
					continue
				}
				for _, o := range r.Obls {
					if !o.ExpectSat && o.Status != "unsat" {
						failed[name] = o.Name
						changed = true
						break
					}
				}
			}
			for _, r := range results {
				blocked := ""
				for _, a := range r.AxiomNames {
					if strings.HasPrefix(a, "lemma.") {
						if by, ok := failed[strings.TrimPrefix(a, "lemma.")]; ok {
							blocked = by
						}
					}
				}
				if blocked == "" {
					continue
				}
				for _, o := range r.Obls {
					if !o.ExpectSat && o.Status == "unsat" {
						o.Status = "conditional"
						o.Raw = map[string]string{"note": "uses a lemma that is not proved: " + blocked}
						changed = true
					}
				}
			}
		}
	}
	rep := &Report{Prop: *prop, Tier: *tier, Seed: seed, Verif: *verif, Repo: *repo, Config: pc, BySolver: map[string]int{}, ByKind: map[string]int{}}
	exit := 0
	var outside []string
	for _, r := range results {
		if r.Outside != "" {
			outside = append(outside, r.Name+": "+r.Outside)
		}
	}
	for _, o := range obls {
		if o.ExpectSat {
			rep.VacuityProbes++
			switch o.Status {
			case "sat":
				rep.VacuityOK++
			case "unsat":
				rep.VacuityFailed = append(rep.VacuityFailed, o.Name)
			default:
				rep.VacuityInconclusive++
			}
			continue
		}
		switch o.Status {
		case "unsat":
			rep.Discharged = append(rep.Discharged, o)
			rep.BySolver[o.Solver]++
			rep.ByKind[o.Kind]++
			rep.SolverTime += o.Time
		case "sat":
			if kf := isKnown(o.Name); kf != nil {
				rep.Known = append(rep.Known, o)
				fmt.Printf("KNOWN-FINDING: property=%s %s\n", *prop, kf.Text)
				continue
			}
			rep.Refuted = append(rep.Refuted, o)
		default:
			if kf := isKnown(o.Name); kf != nil {
				rep.Known = append(rep.Known, o)
				fmt.Printf("KNOWN-FINDING: property=%s %s\n", *prop, kf.Text)
				continue
			}
			if o.Status == "error" {
				// every solver rejected the query: a defect of the generator, never a property violation
				rep.EngineErrors = append(rep.EngineErrors, o.Name)
				rep.Unproved = append(rep.Unproved, o)
			} else if baseline[o.Name] {
				rep.Regressed = append(rep.Regressed, o)
			} else {
				rep.Unproved = append(rep.Unproved, o)
			}
		}
	}
	rep.Results = results
	rep.Sweeps = sweepInfo
	rep.ExtraTrusted = append(rep.ExtraTrusted, sweepTrusted...)
	rep.Outside = outside
	rep.LoadS, rep.GenS, rep.SolveS = loadS, genS, solveS

	if *verbose {
		for _, o := range obls {
			fmt.Printf("  %-8s %-7s %5.2fs  %s\n", o.Status, o.Solver, o.Time, o.Name)
		}
		for _, r := range results {
			for _, w := range r.Warnings {
				fmt.Println("  warning:", r.Name, w)
			}
		}
	}
	// A function whose contract no longer fits it (a loop / assert clause mentions something
	// that is gone: the function was restructured) was verified without those clauses. What then
	// fails to discharge is undecided, not a violation -- the proof attempt was handicapped by
	// the contract, not by the code -- unless a replay driver demonstrates a failing input.
	mismatched := map[string]string{}
	for _, r := range results {
		if r.Mismatch != "" {
			mismatched[r.Name] = r.Mismatch
		}
	}
	undecidedUnits := map[string]int{}
	for _, o := range append(append([]*Obl{}, rep.Refuted...), rep.Regressed...) {
		path := rep.writeReplay(o)
		tail := ""
		reproduced := replayOnRealCode(rep, o, path)
		if !reproduced {
			tail = " no-failing-input-found"
		}
		if _, mm := mismatched[o.Unit]; mm && !reproduced {
			undecidedUnits[o.Unit]++
			continue
		}
		fmt.Printf("VIOLATION property=%s replay=%s obligation=%s status=%s%s\n", *prop, path, o.Name, o.Status, tail)
		exit = 1
	}
	// a mismatched function whose driver demonstrates a failing input is a violation all the same
	for _, r := range results {
		if r.Mismatch == "" || exit == 1 {
			continue
		}
		probe := &Obl{Name: r.Name + "#contract-mismatch: " + r.Mismatch, Kind: "mismatch", Unit: r.Name, Status: "undecided"}
		if p := eng.pkgs[r.PkgPath]; p != nil && len(p.GoFiles) > 0 {
			probe.PkgDir = filepath.Dir(p.GoFiles[0])
		}
		if !hasReplayDriver(rep, probe) {
			continue
		}
		path := rep.writeReplay(probe)
		if replayOnRealCode(rep, probe, path) {
			fmt.Printf("VIOLATION property=%s replay=%s obligation=%s status=undecided (the contract of %s no longer fits; failing input demonstrated on the real code)\n", *prop, path, r.Name+"#contract-mismatch", r.Name)
			exit = 1
		}
	}
	for _, r := range results {
		if r.Mismatch != "" {
			fmt.Printf("NOTE property=%s function %s was restructured: the loop/assert clauses of its contract no longer apply (%s); it was verified without them\n", *prop, r.Name, truncate(r.Mismatch, 200))
			if n := undecidedUnits[r.Name]; n > 0 {
				fmt.Printf("UNDECIDED property=%s reason=contract of %s no longer fits the function; %d of its obligations that used to be discharged are not decided (update the contract)\n", *prop, r.Name, n)
				if exit == 0 {
					exit = 2
				}
			}
		}
	}
	for _, n := range rep.VacuityFailed {
		fmt.Printf("UNDECIDED property=%s reason=vacuous precondition: %s\n", *prop, n)
		if exit == 0 {
			exit = 2
		}
	}
	for _, n := range rep.EngineErrors {
		fmt.Printf("UNDECIDED property=%s reason=all solvers rejected the query of %s (generator defect)\n", *prop, n)
		if exit == 0 {
			exit = 2
		}
	}
	for _, m := range outside {
		fmt.Printf("UNDECIDED property=%s reason=function outside the supported subset or missing: %s\n", *prop, m)
		if exit == 0 {
			exit = 2
		}
	}
	if len(obls) == 0 {
		fmt.Printf("UNDECIDED property=%s reason=no obligations generated\n", *prop)
		if exit == 0 {
			exit = 2
		}
	}
	if len(rep.Unproved) > 0 {
		// An obligation that was never discharged is undecided, not a violation -- unless a
		// replay driver for its function demonstrates a failing input on the real code.
		driverRes := map[string]bool{}
		for _, o := range rep.Unproved {
			fmt.Printf("unproved (not in baseline, not counted): %s [%s]\n", o.Name, o.Status)
			if o.Status == "error" || o.Status == "conditional" || !hasReplayDriver(rep, o) || false {
				continue
			}
			if _, done := driverRes[o.Unit]; done {
				continue
			}
			path := rep.writeReplay(o)
			ok := replayOnRealCode(rep, o, path)
			driverRes[o.Unit] = ok
			if ok {
				rep.Refuted = append(rep.Refuted, o)
				fmt.Printf("VIOLATION property=%s replay=%s obligation=%s status=%s (undischarged; failing input demonstrated on the real code)\n", *prop, path, o.Name, o.Status)
				exit = 1
			}
		}
	}
	// bounded stand-ins (never counted as proved)
	if *only == "" {
		for _, b := range pc.Bounded {
			ok, info := runBounded(rep, b)
			rep.Bounded = append(rep.Bounded, info)
			if !ok {
				path := filepath.Join(*verif, "replays", *prop, "bounded-"+b.Name+".json")
				os.MkdirAll(filepath.Dir(path), 0o755)
				data, _ := json.MarshalIndent(info, "", " ")
				os.WriteFile(path, data, 0o644)
				tail := ""
				if info["failure"] == nil {
					tail = " no-failing-input-found"
				}
				fmt.Printf("VIOLATION property=%s replay=%s obligation=bounded.%s status=counterexample%s\n", *prop, path, b.Name, tail)
				exit = 1
			}
		}
	}
	// thorough tier: every replay driver of a unit of this property is run as a scenario on the
	// real code (a regression guard for the defects found so far; never counted as proved)
	if *tier == "thorough" && *only == "" {
		seen := map[string]bool{}
		for _, r := range results {
			probe := &Obl{Name: r.Name + "#driver-scenarios", Kind: "driver", Unit: r.Name, Status: "scenario"}
			if p := eng.pkgs[r.PkgPath]; p != nil && len(p.GoFiles) > 0 {
				probe.PkgDir = filepath.Dir(p.GoFiles[0])
			}
			d := findReplayDriver(rep, probe)
			if d == "" || seen[d] || probe.PkgDir == "" {
				continue
			}
			seen[d] = true
			path := rep.writeReplay(probe)
			reproduced := replayOnRealCode(rep, probe, path)
			rep.Bounded = append(rep.Bounded, map[string]any{"name": "driver:" + filepath.Base(d), "kind": "replay driver scenarios run on the real code (not a proof)", "failing_input_reproduced": reproduced})
			if reproduced {
				fmt.Printf("VIOLATION property=%s replay=%s obligation=%s status=scenario (a replay driver's scenario fails on the real code)\n", *prop, path, probe.Name)
				exit = 1
			}
		}
	}
	if *updateBaseline {
		var names []string
		for _, o := range rep.Discharged {
			if o.Time < 5 {
				names = append(names, o.Name)
			} else {
				fmt.Printf("not added to baseline (slow: %.1fs): %s\n", o.Time, o.Name)
			}
		}
		sort.Strings(names)
		os.MkdirAll(filepath.Join(*verif, "baseline"), 0o755)
		os.WriteFile(filepath.Join(*verif, "baseline", *prop+".txt"), []byte(strings.Join(names, "\n")+"\n"), 0o644)
	} else if baseline != nil {
		// obligations of the baseline that were not generated this time
		have := map[string]bool{}
		for _, o := range obls {
			have[o.Name] = true
		}
		for n := range baseline {
			if !have[n] {
				rep.Missing = append(rep.Missing, n)
			}
		}
		sort.Strings(rep.Missing)
	}
	rep.Wall = time.Since(t0).Seconds()
	rep.Exit = exit
	if *only == "" {
		if err := rep.writeEvidence(); err != nil {
			fmt.Println("cannot write evidence:", err)
		}
	}
	fmt.Printf("%s %s: %d obligations, %d discharged, %d refuted, %d regressed, %d unproved, %d known; %d functions; vacuity probes %d sat/%d inconclusive/%d vacuous; load %.1fs gen %.1fs solve %.1fs\n",
		*prop, *tier, len(obls)-rep.VacuityProbes, len(rep.Discharged), len(rep.Refuted), len(rep.Regressed), len(rep.Unproved), len(rep.Known), len(results), rep.VacuityOK, rep.VacuityInconclusive, len(rep.VacuityFailed), loadS, genS, solveS)
	return exit
}

// cmdReplay re-runs a recorded failure: the saved SMT query on all solvers, and the Go replay
// driver (if the function has one) against the current /repo.
func cmdReplay(args []string) int {
	fs := flag.NewFlagSet("replay", flag.ExitOnError)
	repo := fs.String("repo", "/repo", "repository root")
	verif := fs.String("verif", "/verif", "verification root")
	fs.Parse(args)
	if fs.NArg() != 1 {
		fmt.Fprintln(os.Stderr, "usage: govc replay <replay.json>")
		return 2
	}
	data, err := os.ReadFile(fs.Arg(0))
	if err != nil {
		fmt.Println(err)
		return 2
	}
	var rp struct {
		Property   string            `json:"property_id"`
		Obligation string            `json:"obligation"`
		Function   string            `json:"function"`
		SMT        string            `json:"smt_file"`
		Model      map[string]string `json:"model_inputs"`
		PkgDir     string            `json:"pkg_dir"`
	}
	if err := json.Unmarshal(data, &rp); err != nil {
		fmt.Println(err)
		return 2
	}
	fmt.Printf("obligation %s (property %s)\n", rp.Obligation, rp.Property)
	if rp.SMT != "" {
		for _, sp := range solvers {
			f := rp.SMT
			if sp.cvc5 {
				continue
			}
			st, _, d := runSolver(context.Background(), sp, f, 30)
			fmt.Printf("  %s: %s (%.1fs)\n", sp.name, st, d)
		}
	}
	o := &Obl{Name: rp.Obligation, Unit: rp.Function, Model: rp.Model, PkgDir: rp.PkgDir, Status: "sat"}
	rep := &Report{Prop: rp.Property, Verif: *verif, Repo: *repo}
	if runReplayDriver(rep, o, fs.Arg(0)) {
		fmt.Println("REPRODUCED on the real code (see replay_output in the file)")
		return 1
	}
	fmt.Println("not reproduced on the current code (or no driver for this function)")
	return 0
}
