package main

// Annotation-free sweeps (C03): exhaustiveness of switches whose default branch panics.
//
// For every `switch x := v.(type)` whose default branch panics (panic(...),
// lint.ExhaustiveTypeSwitch(...)) and whose scrutinee has a closed set of implementors, the
// obligation  dyntype(v) in Impl(T)  ==>  dyntype(v) in Cases  is generated and sent to the
// solvers like any other obligation. Impl(T) is computed from the loaded packages on every
// run: the named types of the interface's own package that implement it; for the IR
// interfaces additionally restricted to the types go/ir actually constructs.
// The same is done for `switch callee.Name()` on *ir.Builtin values, with the set of builtin
// names go/ir can put into a call with a pointer-like result.

import (
	"fmt"
	"go/ast"
	"go/constant"
	"go/token"
	"go/types"
	"sort"
	"strings"

	"golang.org/x/tools/go/packages"
)

var sealedPkgs = map[string]bool{
	"honnef.co/go/tools/go/ir": true,
	"go/ast":                   true,
	"go/types":                 true,
}

// builtins whose call can yield a pointer-like value and that go/ir represents as a call of an
// *ir.Builtin (make/new/len/cap/panic are lowered to dedicated instructions by builder.builtin;
// that set is read from the source, see builderLowered).
var universePointerLike = map[string]bool{"append": true, "recover": true}
var universeNotPointerLike = map[string]bool{"copy": true, "len": true, "cap": true, "real": true, "imag": true, "complex": true, "min": true, "max": true,
	"close": true, "delete": true, "panic": true, "print": true, "println": true, "clear": true, "make": true, "new": true}
var unsafePointerLike = map[string]bool{"Add": true, "Slice": true, "SliceData": true, "StringData": true}

type sweepResult struct {
	obls     []*Obl
	info     map[string]any
	trusted  []string
	switches int
	uncovered map[string][]string // obligation -> implementors without a case (before assumptions)
}

func (e *Engine) sweepSealedSwitches(pkgPaths []string, assumed map[string][]string) *sweepResult {
	res := &sweepResult{info: map[string]any{}, uncovered: map[string][]string{}}
	e.sweepAssumed = assumed
	e.sweepUncovered = res.uncovered
	irPkg := e.pkgs["honnef.co/go/tools/go/ir"]
	constructed := map[string]bool{}
	var ssaNames []string
	lowered := map[string]bool{}
	if irPkg != nil {
		for _, f := range irPkg.Syntax {
			ast.Inspect(f, func(n ast.Node) bool {
				switch x := n.(type) {
				case *ast.CompositeLit:
					if t := irPkg.TypesInfo.TypeOf(x); t != nil {
						if named, ok := types.Unalias(t).(*types.Named); ok {
							constructed[named.Obj().Name()] = true
							if named.Obj().Name() == "Builtin" {
								for _, el := range x.Elts {
									if kv, ok := el.(*ast.KeyValueExpr); ok {
										if id, ok := kv.Key.(*ast.Ident); ok && id.Name == "name" {
											if tv, ok := irPkg.TypesInfo.Types[kv.Value]; ok && tv.Value != nil && tv.Value.Kind() == constant.String {
												ssaNames = append(ssaNames, constant.StringVal(tv.Value))
											}
										}
									}
								}
							}
						}
					}
				case *ast.CallExpr:
					if id, ok := x.Fun.(*ast.Ident); ok && id.Name == "new" && len(x.Args) == 1 {
						if t := irPkg.TypesInfo.TypeOf(x.Args[0]); t != nil {
							if named, ok := types.Unalias(t).(*types.Named); ok {
								constructed[named.Obj().Name()] = true
							}
						}
					}
				case *ast.FuncDecl:
					// names lowered by (*builder).builtin
					if x.Name.Name == "builtin" && x.Recv != nil && x.Body != nil {
						for _, st := range x.Body.List {
							if sw, ok := st.(*ast.SwitchStmt); ok {
								for _, c := range sw.Body.List {
									for _, ce := range c.(*ast.CaseClause).List {
										if tv, ok := irPkg.TypesInfo.Types[ce]; ok && tv.Value != nil && tv.Value.Kind() == constant.String {
											lowered[constant.StringVal(tv.Value)] = true
										}
									}
								}
							}
						}
					}
				}
				return true
			})
		}
	}
	// candidate builtin names
	var builtinNames []string
	var unknownBuiltins []string
	for _, n := range types.Universe.Names() {
		if _, ok := types.Universe.Lookup(n).(*types.Builtin); ok {
			switch {
			case universePointerLike[n]:
				if !lowered[n] {
					builtinNames = append(builtinNames, n)
				}
			case universeNotPointerLike[n]:
			default:
				unknownBuiltins = append(unknownBuiltins, n)
			}
		}
	}
	if up := types.Unsafe; up != nil {
		for _, n := range up.Scope().Names() {
			if _, ok := up.Scope().Lookup(n).(*types.Builtin); ok && unsafePointerLike[n] {
				builtinNames = append(builtinNames, "Unsafe"+n)
			}
		}
	}
	for _, n := range ssaNames {
		if strings.HasPrefix(n, "ssa:") {
			builtinNames = append(builtinNames, n)
		}
	}
	sort.Strings(builtinNames)
	res.info["builtin_names_considered"] = builtinNames
	res.info["universe_builtins_unknown_to_the_table"] = unknownBuiltins
	res.trusted = append(res.trusted,
		"sweep: the builder produces only instruction/value types declared in go/ir, and of those only the ones it constructs with &T{...} or new(T) (scan of go/ir)",
		"sweep: go/ir represents as *ir.Builtin calls with pointer-like result exactly: append, recover, unsafe.{Add,Slice,SliceData,StringData} and the ssa: builtins found in go/ir; make/new/len/cap/panic are lowered (case labels of (*builder).builtin read from source)")

	sort.Strings(pkgPaths)
	for _, path := range pkgPaths {
		p := e.pkgs[path]
		if p == nil || p.TypesInfo == nil {
			continue
		}
		for _, f := range p.Syntax {
			for _, d := range f.Decls {
				fd, ok := d.(*ast.FuncDecl)
				if !ok || fd.Body == nil {
					continue
				}
				obj, _ := p.TypesInfo.Defs[fd.Name].(*types.Func)
				if obj == nil {
					continue
				}
				_, key := funcKey(obj)
				unitName := p.Types.Name() + "." + key
				nts, nss := 0, 0
				ast.Inspect(fd.Body, func(n ast.Node) bool {
					switch sw := n.(type) {
					case *ast.TypeSwitchStmt:
						nts++
						if o := e.sweepTypeSwitch(p, sw, unitName, nts, constructed); o != nil {
							res.obls = append(res.obls, o)
							res.switches++
						}
					case *ast.SwitchStmt:
						nss++
						if o := e.sweepBuiltinSwitch(p, sw, unitName, nss, builtinNames); o != nil {
							res.obls = append(res.obls, o)
							res.switches++
						}
					}
					return true
				})
			}
		}
	}
	return res
}

func defaultPanics(info *types.Info, body []ast.Stmt) bool {
	for _, s := range body {
		es, ok := s.(*ast.ExprStmt)
		if !ok {
			continue
		}
		call, ok := es.X.(*ast.CallExpr)
		if !ok {
			continue
		}
		switch f := ast.Unparen(call.Fun).(type) {
		case *ast.Ident:
			if f.Name == "panic" {
				return true
			}
		case *ast.SelectorExpr:
			if f.Sel.Name == "ExhaustiveTypeSwitch" {
				return true
			}
		}
	}
	return false
}

func (e *Engine) implementors(iface *types.Named, constructed map[string]bool) []types.Type {
	pkg := iface.Obj().Pkg()
	it, ok := iface.Underlying().(*types.Interface)
	if !ok || pkg == nil {
		return nil
	}
	var out []types.Type
	for _, n := range pkg.Scope().Names() {
		tn, ok := pkg.Scope().Lookup(n).(*types.TypeName)
		if !ok || tn.IsAlias() {
			continue
		}
		named, ok := tn.Type().(*types.Named)
		if !ok || named.TypeParams().Len() > 0 {
			continue
		}
		if _, isIface := named.Underlying().(*types.Interface); isIface {
			continue
		}
		if pkg.Path() == "honnef.co/go/tools/go/ir" && !constructed[n] {
			continue
		}
		if types.Implements(named, it) {
			out = append(out, named)
		}
		if pt := types.NewPointer(named); types.Implements(pt, it) && !types.Implements(named, it) {
			out = append(out, pt)
		}
	}
	return out
}

func (e *Engine) sweepTypeSwitch(p *packages.Package, sw *ast.TypeSwitchStmt, unitName string, ord int, constructed map[string]bool) *Obl {
	var ta *ast.TypeAssertExpr
	switch a := sw.Assign.(type) {
	case *ast.ExprStmt:
		ta, _ = ast.Unparen(a.X).(*ast.TypeAssertExpr)
	case *ast.AssignStmt:
		ta, _ = ast.Unparen(a.Rhs[0]).(*ast.TypeAssertExpr)
	}
	if ta == nil {
		return nil
	}
	var dflt *ast.CaseClause
	var cases []ast.Expr
	for _, s := range sw.Body.List {
		cc := s.(*ast.CaseClause)
		if cc.List == nil {
			dflt = cc
		} else {
			cases = append(cases, cc.List...)
		}
	}
	if dflt == nil || !defaultPanics(p.TypesInfo, dflt.Body) {
		return nil
	}
	st := p.TypesInfo.TypeOf(ta.X)
	named, ok := types.Unalias(st).(*types.Named)
	if !ok || named.Obj().Pkg() == nil || !sealedPkgs[named.Obj().Pkg().Path()] {
		return nil
	}
	impl := e.implementors(named, constructed)
	if len(impl) == 0 {
		return nil
	}
	d := newDecls()
	d.constant("d", "Int")
	ids := map[string]int{}
	id := func(t types.Type) int {
		k := typeString(t)
		if v, ok := ids[k]; ok {
			return v
		}
		ids[k] = len(ids) + 1
		return ids[k]
	}
	oname := fmt.Sprintf("%s#nopanic.typeswitch%d", unitName, ord)
	assumedOut := map[string]bool{}
	for _, a := range e.sweepAssumed[oname] {
		assumedOut[a] = true
	}
	var hyp []string
	var implNames []string
	for _, t := range impl {
		if assumedOut[shortTypeString(t)] {
			continue
		}
		hyp = append(hyp, sEq("d", fmt.Sprint(id(t))))
		implNames = append(implNames, shortTypeString(t))
	}
	var goal []string
	nilCase := false
	for _, ce := range cases {
		tv := p.TypesInfo.Types[ce]
		if tv.IsNil() {
			nilCase = true
			continue
		}
		ct := tv.Type
		if it, ok := ct.Underlying().(*types.Interface); ok {
			for _, t := range impl {
				if types.Implements(t, it) {
					goal = append(goal, sEq("d", fmt.Sprint(id(t))))
				}
			}
		} else {
			goal = append(goal, sEq("d", fmt.Sprint(id(ct))))
		}
	}
	_ = nilCase
	// implementors without a case (independent of the assumptions)
	covered := map[string]bool{}
	for _, ce := range cases {
		tv := p.TypesInfo.Types[ce]
		if tv.IsNil() {
			continue
		}
		if it, ok := tv.Type.Underlying().(*types.Interface); ok {
			for _, t := range impl {
				if types.Implements(t, it) {
					covered[shortTypeString(t)] = true
				}
			}
		} else {
			covered[shortTypeString(tv.Type)] = true
		}
	}
	for _, t := range impl {
		if !covered[shortTypeString(t)] {
			e.sweepUncovered[oname] = append(e.sweepUncovered[oname], shortTypeString(t))
		}
	}
	if len(hyp) == 0 {
		hyp = []string{"false"}
	}
	pos := e.fset.Position(sw.Pos())
	o := &Obl{
		Name:    oname,
		Kind:    "nopanic",
		Unit:    unitName,
		Pos:     fmt.Sprintf("%s:%d", relPath(e.repo, pos.Filename), pos.Line),
		Hyps:    []string{sOr(hyp...)},
		Goal:    sOr(goal...),
		GoalSrc: fmt.Sprintf("type switch on %s with panicking default covers every implementor (%s)", shortTypeString(st), strings.Join(implNames, ", ")),
		Decls:   d,
		Inputs:  []InputVar{{Name: "dyntype", Term: "d", Sort: "Int"}},
		PkgDir:  pkgDirOf(p),
	}
	// record the numbering so that a model can be read back
	var legend []string
	for k, v := range ids {
		legend = append(legend, fmt.Sprintf("%d=%s", v, k))
	}
	sort.Strings(legend)
	o.GoalSrc += " [" + strings.Join(legend, " ") + "]"
	return o
}

func (e *Engine) sweepBuiltinSwitch(p *packages.Package, sw *ast.SwitchStmt, unitName string, ord int, names []string) *Obl {
	if sw.Tag == nil {
		return nil
	}
	call, ok := ast.Unparen(sw.Tag).(*ast.CallExpr)
	if !ok {
		return nil
	}
	sel, ok := call.Fun.(*ast.SelectorExpr)
	if !ok || sel.Sel.Name != "Name" {
		return nil
	}
	rt := p.TypesInfo.TypeOf(sel.X)
	pt, ok := rt.(*types.Pointer)
	if !ok {
		return nil
	}
	named, ok := pt.Elem().(*types.Named)
	if !ok || named.Obj().Name() != "Builtin" || named.Obj().Pkg() == nil || named.Obj().Pkg().Path() != "honnef.co/go/tools/go/ir" {
		return nil
	}
	var dflt *ast.CaseClause
	var handled []string
	for _, s := range sw.Body.List {
		cc := s.(*ast.CaseClause)
		if cc.List == nil {
			dflt = cc
			continue
		}
		for _, ce := range cc.List {
			if tv, ok := p.TypesInfo.Types[ce]; ok && tv.Value != nil && tv.Value.Kind() == constant.String {
				handled = append(handled, constant.StringVal(tv.Value))
			}
		}
	}
	if dflt == nil || !defaultPanics(p.TypesInfo, dflt.Body) {
		return nil
	}
	d := newDecls()
	d.constant("name", "String")
	oname := fmt.Sprintf("%s#nopanic.builtinswitch%d", unitName, ord)
	assumedOut := map[string]bool{}
	for _, a := range e.sweepAssumed[oname] {
		assumedOut[a] = true
	}
	var hyp, goal []string
	hset := map[string]bool{}
	for _, n := range handled {
		goal = append(goal, sEq("name", sStr(n)))
		hset[n] = true
	}
	for _, n := range names {
		if !hset[n] {
			e.sweepUncovered[oname] = append(e.sweepUncovered[oname], n)
		}
		if assumedOut[n] {
			continue
		}
		hyp = append(hyp, sEq("name", sStr(n)))
	}
	if len(hyp) == 0 {
		hyp = []string{"false"}
	}
	pos := e.fset.Position(sw.Pos())
	return &Obl{
		Name:    oname,
		Kind:    "nopanic",
		Unit:    unitName,
		Pos:     fmt.Sprintf("%s:%d", relPath(e.repo, pos.Filename), pos.Line),
		Hyps:    []string{sOr(hyp...)},
		Goal:    sOr(goal...),
		GoalSrc: fmt.Sprintf("switch on the name of an *ir.Builtin with panicking default handles every builtin that can be called with a pointer-like result (%s)", strings.Join(names, ", ")),
		Decls:   d,
		Inputs:  []InputVar{{Name: "name", Term: "name", Sort: "String"}},
		PkgDir:  pkgDirOf(p),
	}
}

var _ = token.NoPos

func pkgDirOf(p *packages.Package) string {
	if len(p.GoFiles) > 0 {
		i := strings.LastIndex(p.GoFiles[0], "/")
		return p.GoFiles[0][:i]
	}
	return ""
}
