package main

// Zero-annotation safety sweep (C03): every function and function literal of the listed packages
// that has no contract of its own is executed symbolically under the implicit contract
//     modifies heap; noinline; explicit panics are not obligations
// and the obligations "index in range", "slice bounds in range", "type assertion holds",
// "shift count in range", "divisor non-zero" are generated for it. Parameters, captured
// variables and the results of all calls are arbitrary (well-typed) values, so most of these
// obligations are NOT provable and say nothing; the ones that are discharged hold for every
// caller. Only discharged obligations are recorded (in the baseline) and claimed; a later change
// that breaks one is reported as a regression.
//
// Obligations are named by the text of the source line they sit on (not by an ordinal), so that
// unrelated edits of the same function do not rename them.

import (
	"fmt"
	"go/ast"
	"go/token"
	"go/types"
	"os"
	"sort"
	"strings"

	"golang.org/x/tools/go/packages"
)

type safetySweepResult struct {
	results []*UnitResult
	info    map[string]any
}

func (e *Engine) sweepSafety(pkgPaths []string, only string) *safetySweepResult {
	sort.Strings(pkgPaths)
	sr := &safetySweepResult{info: map[string]any{"name": "safety"}}
	units, skipped, withContract := 0, 0, 0
	skipReasons := map[string]int{}
	for _, path := range pkgPaths {
		p := e.pkgs[path]
		if p == nil || p.TypesInfo == nil {
			continue
		}
		for _, f := range p.Syntax {
			fname := e.fset.Position(f.Pos()).Filename
			if strings.HasSuffix(fname, "_test.go") {
				continue
			}
			for _, d := range f.Decls {
				fd, ok := d.(*ast.FuncDecl)
				if !ok || fd.Body == nil {
					continue
				}
				obj, _ := p.TypesInfo.Defs[fd.Name].(*types.Func)
				if obj == nil {
					continue
				}
				_, base := funcKey(obj)
				keys := []string{base}
				lits := map[*ast.FuncLit]string{}
				litKeysOf(fd, base, lits)
				var lk []string
				for _, k := range lits {
					lk = append(lk, k)
				}
				sort.Strings(lk)
				keys = append(keys, lk...)
				for _, key := range keys {
					if only != "" && !strings.Contains(key, only) {
						continue
					}
					if e.lookupContract(path, key) != nil {
						withContract++
						continue
					}
					res := e.sweepOne(p, key)
					if res.Outside != "" {
						skipped++
						r := res.Outside
						if i := strings.Index(r, ": "); i >= 0 {
							r = r[i+2:]
						}
						if len(r) > 160 {
							r = r[:160]
						}
						skipReasons[r]++
						continue
					}
					units++
					if len(res.Obls) > 0 {
						sr.results = append(sr.results, res)
					}
				}
			}
		}
	}
	sr.info["functions_and_literals_executed"] = units
	sr.info["skipped_outside_subset"] = skipped
	sr.info["skipped_have_contract"] = withContract
	type kv struct {
		k string
		v int
	}
	var rs []kv
	for k, v := range skipReasons {
		rs = append(rs, kv{k, v})
	}
	sort.Slice(rs, func(i, j int) bool { return rs[i].v > rs[j].v })
	var top []string
	for i := 0; i < len(rs) && i < 12; i++ {
		top = append(top, fmt.Sprintf("%d x %s", rs[i].v, rs[i].k))
	}
	sr.info["top_skip_reasons"] = top
	return sr
}

func (e *Engine) sweepOne(p *packages.Package, key string) (res *UnitResult) {
	ct := &Contract{Key: key, PkgPath: p.PkgPath, Modifies: []string{"heap"}, HasMod: true, MayPanic: true, NoInline: true,
		Loops: map[int]*LoopSpec{}, ReturnAsserts: map[int][]*Clause{}, Counts: map[string]string{},
		SkipSafe: map[string]bool{"nil": true, "make": true}, Sweep: true}
	defer func() {
		if r := recover(); r != nil {
			res = &UnitResult{Name: p.Types.Name() + "." + key, Key: key, PkgPath: p.PkgPath, Outside: fmt.Sprintf("engine panic: %v", r)}
		}
	}()
	res = e.verifyFunc1(p, ct)
	if res.WritesAST {
		res.Outside = "writes to a field of a go/ast node (the sweep assumes the syntax tree is read-only)"
		res.Obls = nil
		return res
	}
	// keep only the safety obligations
	var keep []*Obl
	for _, o := range res.Obls {
		if o.ExpectSat {
			continue
		}
		if strings.HasPrefix(o.Kind, "safe.") || (o.Kind == "nopanic" && strings.Contains(o.Name, "#nopanic.assert")) {
			o.Sweep = true
			keep = append(keep, o)
		}
	}
	res.Obls = keep
	return res
}

// rawLine: the text of the source line of pos.
func (u *Unit) rawLine(pos token.Pos) string {
	if !pos.IsValid() {
		return ""
	}
	p := u.eng.fset.Position(pos)
	src := u.eng.sourceLines(strings.TrimPrefix(p.Filename, u.eng.repo+"/"))
	if p.Line <= 0 || p.Line > len(src) {
		return ""
	}
	return src[p.Line-1]
}

// lineLabel: a stable label for an obligation at pos: the trimmed text of its source line.
func (u *Unit) lineLabel(posStr string) string {
	// posStr = file:line relative to the repo
	i := strings.LastIndex(posStr, ":")
	if i < 0 {
		return ""
	}
	file := posStr[:i]
	var line int
	fmt.Sscan(posStr[i+1:], &line)
	src := u.eng.sourceLines(file)
	if line <= 0 || line > len(src) {
		return ""
	}
	t := strings.TrimSpace(src[line-1])
	t = strings.NewReplacer(" ", "_", "\t", "_", "#", "", "~", "").Replace(t)
	if len(t) > 70 {
		t = t[:70]
	}
	return t
}

var srcCache = map[string][]string{}

func (e *Engine) sourceLines(rel string) []string {
	if l, ok := srcCache[rel]; ok {
		return l
	}
	b, err := os.ReadFile(e.repo + "/" + rel)
	if err != nil {
		srcCache[rel] = nil
		return nil
	}
	l := strings.Split(string(b), "\n")
	srcCache[rel] = l
	return l
}
