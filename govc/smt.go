package main

// SMT-LIB term construction helpers and the declaration registry.

import (
	"fmt"
	"go/types"
	"sort"
	"strconv"
	"strings"
)

func app(op string, args ...string) string {
	if len(args) == 0 {
		return op
	}
	return "(" + op + " " + strings.Join(args, " ") + ")"
}

func sAnd(ts ...string) string {
	var out []string
	for _, t := range ts {
		if t == "true" {
			continue
		}
		if t == "false" {
			return "false"
		}
		out = append(out, t)
	}
	switch len(out) {
	case 0:
		return "true"
	case 1:
		return out[0]
	}
	return app("and", out...)
}

func sOr(ts ...string) string {
	var out []string
	for _, t := range ts {
		if t == "false" {
			continue
		}
		if t == "true" {
			return "true"
		}
		out = append(out, t)
	}
	switch len(out) {
	case 0:
		return "false"
	case 1:
		return out[0]
	}
	return app("or", out...)
}

func sNot(t string) string {
	switch t {
	case "true":
		return "false"
	case "false":
		return "true"
	}
	if strings.HasPrefix(t, "(not ") && balanced(t[5:len(t)-1]) {
		return t[5 : len(t)-1]
	}
	return app("not", t)
}

func balanced(s string) bool {
	d := 0
	inStr := false
	for i := 0; i < len(s); i++ {
		c := s[i]
		if inStr {
			if c == '"' {
				inStr = false
			}
			continue
		}
		switch c {
		case '"':
			inStr = true
		case '(':
			d++
		case ')':
			d--
			if d < 0 {
				return false
			}
		case ' ':
			if d == 0 {
				return false
			}
		}
	}
	return d == 0
}

func sImp(a, b string) string {
	if a == "true" {
		return b
	}
	if b == "true" {
		return "true"
	}
	if a == "false" {
		return "true"
	}
	return app("=>", a, b)
}

func sEq(a, b string) string {
	if a == b {
		return "true"
	}
	return app("=", a, b)
}

func sIte(c, a, b string) string {
	if c == "true" {
		return a
	}
	if c == "false" {
		return b
	}
	if a == b {
		return a
	}
	return app("ite", c, a, b)
}

func sInt(v int64) string {
	if v < 0 {
		return "(- " + strconv.FormatUint(uint64(-v), 10) + ")"
	}
	return strconv.FormatInt(v, 10)
}

func sIntStr(v string) string {
	if strings.HasPrefix(v, "-") {
		return "(- " + v[1:] + ")"
	}
	return v
}

func sStr(s string) string {
	var b strings.Builder
	b.WriteByte('"')
	for _, r := range []byte(s) {
		switch {
		case r == '"':
			b.WriteString(`""`)
		case r == '\\':
			b.WriteString(`\u{5c}`)
		case r >= 32 && r < 127:
			b.WriteByte(r)
		default:
			fmt.Fprintf(&b, `\u{%x}`, r)
		}
	}
	b.WriteByte('"')
	return b.String()
}

func mangle(s string) string {
	var b strings.Builder
	for _, r := range s {
		switch {
		case r >= 'a' && r <= 'z', r >= 'A' && r <= 'Z', r >= '0' && r <= '9', r == '_', r == '$':
			b.WriteRune(r)
		case r == '*':
			b.WriteString("P")
		case r == '[' || r == ']':
			b.WriteString("L")
		case r == ' ' || r == '(' || r == ')':
		default:
			b.WriteString("_")
		}
	}
	return b.String()
}

// Decls is an ordered registry of SMT declarations.
type Decls struct {
	lines []string
	seen  map[string]bool
	kind  map[string]string // name -> sort (for consts) / signature
	// axioms are asserted after all declarations
	axioms     []string
	axiomNames []string
	axiomSeen  map[string]bool
}

func newDecls() *Decls {
	return &Decls{seen: map[string]bool{}, kind: map[string]string{}, axiomSeen: map[string]bool{}}
}

func (d *Decls) add(key, line string) bool {
	if d.seen[key] {
		return false
	}
	d.seen[key] = true
	d.lines = append(d.lines, line)
	return true
}

func (d *Decls) constant(name, sort string) string {
	d.add("c:"+name, fmt.Sprintf("(declare-const %s %s)", name, sort))
	d.kind[name] = sort
	return name
}

func (d *Decls) fun(name string, args []string, res string) string {
	d.add("f:"+name, fmt.Sprintf("(declare-fun %s (%s) %s)", name, strings.Join(args, " "), res))
	return name
}

func (d *Decls) axiom(name, term string) {
	if d.axiomSeen[name] {
		return
	}
	d.axiomSeen[name] = true
	d.axioms = append(d.axioms, term)
	d.axiomNames = append(d.axiomNames, name)
}

const prelude = `(define-fun godiv ((x Int) (y Int)) Int (ite (>= x 0) (ite (> y 0) (div x y) (- (div x (- y)))) (ite (> y 0) (- (div (- x) y)) (div (- x) (- y)))))
(define-fun gomod ((x Int) (y Int)) Int (ite (>= x 0) (mod x (ite (> y 0) y (- y))) (- (mod (- x) (ite (> y 0) y (- y))))))
(declare-fun dyntype (Int) Int)
(assert (= (dyntype 0) 0))
`

// ---- sorts for Go types ----

type sortCtx struct {
	d       *Decls
	tids    map[string]int
	tidList []string
	structs map[string]*types.Struct // sort name -> struct
	named   map[string]types.Type
	mapKV   map[string][2]string
	// dynamic types and the interfaces they are tested against (implements_N facts)
	tidTypes map[int]types.Type
	ifaces   []types.Type
}

func newSortCtx(d *Decls) *sortCtx {
	return &sortCtx{d: d, tids: map[string]int{}, structs: map[string]*types.Struct{}, named: map[string]types.Type{}, mapKV: map[string][2]string{}}
}

func typeString(t types.Type) string {
	return types.TypeString(t, func(p *types.Package) string { return p.Path() })
}

func shortTypeString(t types.Type) string {
	return types.TypeString(t, func(p *types.Package) string { return p.Name() })
}

// tid returns the integer id of a Go type (for dyntype).
func (sc *sortCtx) tid(t types.Type) int {
	t = types.Unalias(t)
	k := typeString(t)
	if id, ok := sc.tids[k]; ok {
		return id
	}
	id := len(sc.tids) + 1
	sc.tids[k] = id
	sc.tidList = append(sc.tidList, k)
	if sc.tidTypes == nil {
		sc.tidTypes = map[int]types.Type{}
	}
	sc.tidTypes[id] = t
	sc.syncImplements()
	return id
}

// implementsFn returns the predicate "a value with this dynamic type id implements interface
// t". For every concrete type that occurs as a dynamic type in the unit the answer is the type
// checker's (types.Implements); for other dynamic types it is uninterpreted.
func (sc *sortCtx) implementsFn(t types.Type) string {
	id := sc.tid(t)
	name := "implements_" + fmt.Sprint(id)
	sc.d.fun(name, []string{"Int"}, "Bool")
	known := false
	for _, i := range sc.ifaces {
		if types.Identical(i, t) {
			known = true
		}
	}
	if !known {
		sc.ifaces = append(sc.ifaces, t)
		sc.syncImplements()
	}
	return name
}

func (sc *sortCtx) syncImplements() {
	for _, it := range sc.ifaces {
		iface, ok := it.Underlying().(*types.Interface)
		if !ok {
			continue
		}
		iid := sc.tids[typeString(types.Unalias(it))]
		for id := 1; id <= len(sc.tidList); id++ {
			ct := sc.tidTypes[id]
			if ct == nil || types.IsInterface(ct) || hasTypeParam(ct) {
				continue
			}
			func() {
				defer func() { recover() }()
				b := "false"
				if types.Implements(ct, iface) {
					b = "true"
				}
				sc.d.axiom(fmt.Sprintf("implements.%d.%d", iid, id), fmt.Sprintf("(= (implements_%d %d) %s)", iid, id, b))
			}()
		}
	}
}

func hasTypeParam(t types.Type) bool {
	found := false
	var visit func(t types.Type, depth int)
	visit = func(t types.Type, depth int) {
		if found || depth > 6 || t == nil {
			return
		}
		switch x := types.Unalias(t).(type) {
		case *types.TypeParam:
			found = true
		case *types.Pointer:
			visit(x.Elem(), depth+1)
		case *types.Slice:
			visit(x.Elem(), depth+1)
		case *types.Array:
			visit(x.Elem(), depth+1)
		case *types.Map:
			visit(x.Key(), depth+1)
			visit(x.Elem(), depth+1)
		case *types.Named:
			for i := 0; i < x.TypeArgs().Len(); i++ {
				visit(x.TypeArgs().At(i), depth+1)
			}
		}
	}
	visit(t, 0)
	return found
}

func isStructValue(t types.Type) (*types.Struct, bool) {
	s, ok := t.Underlying().(*types.Struct)
	return s, ok
}

// sortOf maps a Go type to an SMT sort, declaring datatypes on demand.
func (sc *sortCtx) sortOf(t types.Type) string {
	t = types.Unalias(t)
	if tp, ok := t.(*types.TypeParam); ok {
		// one uninterpreted sort for all type parameters: the same parameter goes by different
		// names in different generic declarations (Elem / Fact, Key / NodeID), and values of
		// different type parameters are never compared in well-typed code or specifications
		_ = tp
		n := "TP"
		sc.d.add("s:"+n, fmt.Sprintf("(declare-sort %s 0)", n))
		return n
	}
	switch u := t.Underlying().(type) {
	case *types.Basic:
		switch {
		case u.Info()&types.IsBoolean != 0:
			return "Bool"
		case u.Info()&types.IsInteger != 0:
			return "Int"
		case u.Info()&types.IsString != 0:
			return "String"
		case u.Info()&types.IsFloat != 0, u.Info()&types.IsComplex != 0:
			sc.d.add("s:Float", "(declare-sort Float 0)")
			return "Float"
		case u.Kind() == types.UnsafePointer:
			return "Int"
		case u.Kind() == types.UntypedNil:
			return "Int"
		}
		return "Int"
	case *types.Pointer, *types.Interface, *types.Signature, *types.Chan:
		return "Int"
	case *types.Slice:
		return sc.sliceSort(sc.sortOf(u.Elem()))
	case *types.Array:
		return "(Array Int " + sc.sortOf(u.Elem()) + ")"
	case *types.Map:
		return sc.mapSort(sc.sortOf(u.Key()), sc.sortOf(u.Elem()))
	case *types.Struct:
		return sc.structSort(t, u)
	case *types.Tuple:
		return "Tuple"
	}
	return "Int"
}

func (sc *sortCtx) sliceSort(elem string) string {
	n := "Slice_" + mangle(elem)
	sc.d.add("s:"+n, fmt.Sprintf("(declare-datatypes ((%s 0)) (((mk_%s (sarr_%s (Array Int %s)) (slen_%s Int) (snil_%s Bool)))))", n, n, n, elem, n, n))
	return n
}

func (sc *sortCtx) mapSort(k, v string) string {
	n := "Map_" + mangle(k) + "_" + mangle(v)
	sc.mapKV[n] = [2]string{k, v}
	sc.d.add("s:"+n, fmt.Sprintf("(declare-datatypes ((%s 0)) (((mk_%s (mdom_%s (Array %s Bool)) (mval_%s (Array %s %s)) (mcard_%s Int) (mnil_%s Bool)))))", n, n, n, k, n, k, v, n, n))
	return n
}

func (sc *sortCtx) setSort(elem string) string {
	return "(Array " + elem + " Bool)"
}

func (sc *sortCtx) structName(t types.Type, u *types.Struct) string {
	if n, ok := t.(*types.Named); ok {
		pkg := ""
		if n.Obj().Pkg() != nil {
			pkg = n.Obj().Pkg().Name() + "_"
		}
		name := "S_" + pkg + n.Obj().Name()
		allParams := true
		if n.TypeArgs() != nil {
			for i := 0; i < n.TypeArgs().Len(); i++ {
				if _, ok := types.Unalias(n.TypeArgs().At(i)).(*types.TypeParam); !ok {
					allParams = false
				}
			}
		}
		if n.TypeArgs() != nil && n.TypeArgs().Len() > 0 && !allParams {
			for i := 0; i < n.TypeArgs().Len(); i++ {
				name += "_" + mangle(shortTypeString(n.TypeArgs().At(i)))
			}
		}
		return name
	}
	return "S_anon_" + mangle(shortTypeString(u))
}

func (sc *sortCtx) structSort(t types.Type, u *types.Struct) string {
	name := sc.structName(t, u)
	// distinct Go types with the same short name (sync.Mutex / internal/sync.Mutex)
	for i := 2; ; i++ {
		prev, ok := sc.named[name]
		if !ok || types.Identical(prev, t) || sameGeneric(prev, t) {
			break
		}
		name = fmt.Sprintf("%s_%d", sc.structName(t, u), i)
	}
	if _, ok := sc.structs[name]; ok {
		return name
	}
	sc.structs[name] = u
	sc.named[name] = t
	// declare field sorts first
	var fields []string
	for i := 0; i < u.NumFields(); i++ {
		f := u.Field(i)
		fields = append(fields, fmt.Sprintf("(%s %s)", fieldSelIdx(name, u, i), sc.sortOf(f.Type())))
	}
	if len(fields) == 0 {
		sc.d.add("s:"+name, fmt.Sprintf("(declare-datatypes ((%s 0)) (((mk_%s))))", name, name))
	} else {
		sc.d.add("s:"+name, fmt.Sprintf("(declare-datatypes ((%s 0)) (((mk_%s %s))))", name, name, strings.Join(fields, " ")))
	}
	return name
}

func fieldSel(structSort, field string) string { return structSort + "_" + mangle(field) }

// fieldSelIdx: selector name of field i; blank fields (several may be called "_") get their index.
func fieldSelIdx(structSort string, u *types.Struct, i int) string {
	if u.Field(i).Name() == "_" {
		return fmt.Sprintf("%s_blank%d", structSort, i)
	}
	return fieldSel(structSort, u.Field(i).Name())
}

// box/unbox for interface values
func (sc *sortCtx) boxFns(t types.Type) (box, unbox string, tid int) {
	t = types.Unalias(t)
	so := sc.sortOf(t)
	tid = sc.tid(t)
	box = fmt.Sprintf("box_%d", tid)
	unbox = fmt.Sprintf("unbox_%d", tid)
	if sc.d.add("f:"+box, fmt.Sprintf("(declare-fun %s (%s) Int)", box, so)) {
		sc.d.add("f:"+unbox, fmt.Sprintf("(declare-fun %s (Int) %s)", unbox, so))
		sc.d.axiom("box."+box+".a", fmt.Sprintf("(forall ((v %s)) (! (and (= (%s (%s v)) v) (= (dyntype (%s v)) %d) (not (= (%s v) 0))) :pattern ((%s v))))", so, unbox, box, box, tid, box, box))
		sc.d.axiom("box."+box+".b", fmt.Sprintf("(forall ((i Int)) (! (=> (= (dyntype i) %d) (= (%s (%s i)) i)) :pattern ((%s i))))", tid, box, unbox, unbox))
	}
	return
}

func sortedKeys[V any](m map[string]V) []string {
	var ks []string
	for k := range m {
		ks = append(ks, k)
	}
	sort.Strings(ks)
	return ks
}

func (d *Decls) declarePow2() {
	if !d.add("f:pow2", "(declare-fun pow2 (Int) Int)") {
		return
	}
	d.axiom("pow2.0", "(= (pow2 0) 1)")
	d.axiom("pow2.step", "(forall ((i Int)) (! (=> (>= i 0) (= (pow2 (+ i 1)) (* 2 (pow2 i)))) :pattern ((pow2 (+ i 1)))))")
	d.axiom("pow2.pos", "(forall ((i Int)) (! (=> (>= i 0) (> (pow2 i) 0)) :pattern ((pow2 i))))")
}

// sameGeneric: both are the same generic type, uninstantiated or instantiated with type parameters only.
func sameGeneric(a, b types.Type) bool {
	na, ok1 := types.Unalias(a).(*types.Named)
	nb, ok2 := types.Unalias(b).(*types.Named)
	return ok1 && ok2 && na.Origin() == nb.Origin()
}

// bitApp builds (bit t i), distributing over a top-level ite of t so that the bit axioms'
// triggers (bit (bitor a b) i) etc. match syntactically.
func bitApp(t, i string) string {
	if strings.HasPrefix(t, "(ite ") && strings.HasSuffix(t, ")") {
		args := splitArgs(t[5 : len(t)-1])
		if len(args) == 3 {
			return sIte(args[0], bitApp(args[1], i), bitApp(args[2], i))
		}
	}
	return app("bit", t, i)
}
