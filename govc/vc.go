package main

// Core data structures of the VC generator: engine, unit, state, obligations.

import (
	"fmt"
	"go/ast"
	"go/token"
	"go/types"
	"sort"
	"strings"

	"golang.org/x/tools/go/packages"
)

type Val struct {
	T  string     // SMT term
	Ty types.Type // Go type (nil for ghost-only values)
	So string     // SMT sort
}

type Obl struct {
	Name   string
	Kind   string
	Unit   string
	Pos    string
	Hyps   []string
	Goal   string
	GoalSrc string
	Decls  *Decls
	Inputs []InputVar
	// results
	Status string // unsat sat unknown timeout error
	Solver string
	Time   float64
	Raw    map[string]string
	Model  map[string]string
	File   string
	ExpectSat bool // vacuity probes: expected to be satisfiable
	Sweep  bool // obligation of the zero-annotation safety sweep
	PkgDir string
}

type InputVar struct {
	Name string
	Term string
	Sort string
	GoType string
}

type State struct {
	vars  map[types.Object]Val
	heap  map[string]string
	ghost map[string]Val
	hyps  []string
	epoch string // heap epoch: keys not present in heap denote the constant key$epoch
}

func newState() *State {
	return &State{vars: map[types.Object]Val{}, heap: map[string]string{}, ghost: map[string]Val{}, epoch: "0"}
}

func (s *State) clone() *State {
	n := &State{vars: make(map[types.Object]Val, len(s.vars)), heap: make(map[string]string, len(s.heap)), ghost: make(map[string]Val, len(s.ghost))}
	for k, v := range s.vars {
		n.vars[k] = v
	}
	for k, v := range s.heap {
		n.heap[k] = v
	}
	for k, v := range s.ghost {
		n.ghost[k] = v
	}
	n.hyps = s.hyps[:len(s.hyps):len(s.hyps)]
	n.epoch = s.epoch
	return n
}

func (s *State) assume(h string) {
	if h == "true" {
		return
	}
	s.hyps = append(s.hyps[:len(s.hyps):len(s.hyps)], h)
}

type exitKind int

const (
	exReturn exitKind = iota
	exBreak
	exContinue
)

type Exit struct {
	kind  exitKind
	label string
	st    *State
	results []Val
}

type frame struct {
	exits []Exit
}

type unsupportedErr struct {
	pos token.Pos
	msg string
}

type Engine struct {
	fset      *token.FileSet
	pkgs      map[string]*packages.Package // by path
	cfiles    map[string]*ContractFile     // by pkg path
	contracts map[string]*Contract         // pkgpath + "." + key
	ghosts    map[string]*GhostFn          // pkgpath + "." + name
	lemmas    map[string]*Lemma
	lemmaPkg  map[string]string
	repo      string
	contractHome map[*Contract]string
	immutable map[string]bool // pkgpath.Name of package-level variables treated as constants
	ghostVars   map[string]SVar   // pkgpath.name -> declaration
	ghostFields map[string][]GhostField // pkgpath.TypeName -> ghost fields
	ghostFieldHome map[string]string
	sweepAssumed   map[string][]string
	sweepUncovered map[string][]string
}

type Unit struct {
	eng      *Engine
	pkg      *packages.Package
	info     *types.Info
	name     string
	contract *Contract
	fnNode   ast.Node
	body     *ast.BlockStmt
	sig      *types.Signature
	recv     *types.Var
	d        *Decls
	sc       *sortCtx
	obls     []*Obl
	nfresh   int
	heapSorts map[string]string
	entry    *State
	results  []*types.Var
	resultVals []Val
	loopN    int
	inSpec   int
	astWrite bool
	assertArgs []Val
	onPos     map[*CallAssert][]token.Pos
	matchedCA map[*CallAssert]bool
	callN    map[string]int
	safeN    map[string]int
	closures map[types.Object]*ast.FuncLit
	litKeys  map[*ast.FuncLit]string
	frames   []*frame
	warnings []string
	abstracted []string
	inputs   []InputVar
	ghostDone map[string]bool
	axiomsDone bool
	curFnKey string
	inlineDepth int
	trustedUsed map[string]bool
	labelStack []string
	pendingLabel string
	globalInit map[string]bool
	specPkgPath string
	xframes  []*xframe
	discovering int
	usedContracts map[string]bool
	tables   map[string]Val
	tablesUsed []string
	ftype    *ast.FuncType
	captured []*types.Var
	axiomsUsed []string
	loopPre  []*State
	elemAlias map[types.Object]elemAlias
	returnOrd map[*ast.ReturnStmt]int
	curCallArgs []ast.Expr
}

func (u *Unit) fresh(prefix, sort string) string {
	u.nfresh++
	n := fmt.Sprintf("%s$%d", mangle(prefix), u.nfresh)
	return u.d.constant(n, sort)
}

func (u *Unit) unsupported(pos token.Pos, f string, a ...any) {
	panic(unsupportedErr{pos, fmt.Sprintf(f, a...)})
}

func (u *Unit) posStr(pos token.Pos) string {
	if !pos.IsValid() {
		return ""
	}
	p := u.eng.fset.Position(pos)
	return fmt.Sprintf("%s:%d", strings.TrimPrefix(p.Filename, u.eng.repo+"/"), p.Line)
}

// oblige records a proof obligation under the current hypotheses.
func (u *Unit) oblige(kind, label string, pos token.Pos, st *State, goal string, src string) {
	if goal == "true" {
		// still count trivial obligations: they are discharged syntactically
	}
	name := u.name + "#" + kind
	if label != "" {
		name += "." + label
	}
	// Safety obligations and preconditions at call sites are named by the text of the source
	// line they sit on, not by an ordinal: an unrelated edit of the same function (one more
	// index expression, one more call of the same callee) must not rename them.
	if pos.IsValid() {
		line := u.lineLabel(u.posStr(pos))
		switch {
		case strings.HasPrefix(kind, "safe."):
			name = u.name + "#" + kind + "[" + line + "]"
		case kind == "nopanic" && strings.HasPrefix(label, "assert."):
			name = u.name + "#nopanic.assert[" + line + "]"
		case kind == "nopanic" && label != "" && label[0] >= '0' && label[0] <= '9':
			name = u.name + "#nopanic.panic[" + line + "]"
		case kind == "pre@call":
			// label = callee#k.clause
			if i := strings.Index(label, "#"); i >= 0 {
				rest := label[i+1:]
				cl := ""
				if j := strings.Index(rest, "."); j >= 0 {
					cl = rest[j:]
				}
				name = u.name + "#pre@call." + label[:i] + "[" + line + "]" + cl
			}
		}
	}
	// make unique
	base := name
	for i := 2; ; i++ {
		dup := false
		for _, o := range u.obls {
			if o.Name == name {
				dup = true
				break
			}
		}
		if !dup {
			break
		}
		name = fmt.Sprintf("%s~%d", base, i)
	}
	o := &Obl{Name: name, Kind: kind, Unit: u.name, Pos: u.posStr(pos), Hyps: st.hyps[:len(st.hyps):len(st.hyps)], Goal: goal, GoalSrc: src, Decls: u.d, Inputs: u.inputs}
	u.obls = append(u.obls, o)
}

func (u *Unit) safeLabel(kind string) string {
	u.safeN[kind]++
	return fmt.Sprint(u.safeN[kind])
}

// safety obligation (skipped if the contract says `nosafe kind`)
func (u *Unit) safe(kind string, pos token.Pos, st *State, goal string, src string) {
	if u.inSpec > 0 {
		return // specification terms are total: no safety obligations
	}
	if u.contract != nil && (u.contract.SkipSafe[kind] || u.contract.SkipSafe["all"]) {
		return
	}
	if goal == "true" {
		return
	}
	u.oblige("safe."+kind, u.safeLabel(kind), pos, st, goal, src)
}

// ---- heap ----

func (u *Unit) heapKeyField(structSort, field string) string {
	return "H_" + structSort + "_" + mangle(field)
}

func (u *Unit) heapGet(st *State, key, sort string) string {
	if t, ok := st.heap[key]; ok {
		return t
	}
	// first use in this heap epoch: the same constant in every state of that epoch
	u.heapSorts[key] = sort
	if u.roKey(key) {
		// read-only location (see roKey): one constant for the whole function
		name := u.d.constant(key+"$ro", sort)
		st.heap[key] = name
		return name
	}
	name := u.d.constant(key+"$"+st.epoch, sort)
	st.heap[key] = name
	return name
}

// havocAll forgets everything about the heap (a call of unknown code): a new epoch starts,
// so that also heap locations first touched later are unconstrained.
func (u *Unit) havocAll(st *State) {
	oldAlloc := u.alloc(st)
	u.nfresh++
	st.epoch = fmt.Sprintf("e%d", u.nfresh)
	for k := range st.heap {
		delete(st.heap, k)
	}
	// allocation only grows
	na := u.alloc(st)
	u.nfresh++
	r := fmt.Sprintf("r!%d", u.nfresh)
	st.assume(fmt.Sprintf("(forall ((%s Int)) (! (=> (select %s %s) (select %s %s)) :pattern ((select %s %s))))", r, oldAlloc, r, na, r, na, r))
}

// syncEpochs materialises all heap keys of the arms when their epochs differ and returns the
// epoch of the joined state.
func (u *Unit) syncEpochs(arms []*State) string {
	same := true
	for _, a := range arms[1:] {
		if a.epoch != arms[0].epoch {
			same = false
		}
	}
	if same {
		return arms[0].epoch
	}
	keys := map[string]bool{}
	for _, a := range arms {
		for k := range a.heap {
			keys[k] = true
		}
	}
	for k := range u.heapSorts {
		keys[k] = true
	}
	for _, a := range arms {
		for k := range keys {
			if _, ok := a.heap[k]; !ok {
				u.heapGet(a, k, u.heapSorts[k])
			}
		}
	}
	u.nfresh++
	return fmt.Sprintf("e%d", u.nfresh)
}

// roKey: in the zero-annotation safety sweep the fields of go/ast nodes are read-only: the
// analyzers, the analysis framework and go/types never write to the syntax tree they are given
// (an assumption, listed in the evidence; a sweep unit that does write to an ast field is
// dropped from the sweep altogether).
func (u *Unit) roKey(key string) bool {
	return u.contract != nil && u.contract.Sweep && strings.HasPrefix(key, "H_S_ast_")
}

func (u *Unit) heapSet(st *State, key, sort, term string) {
	u.heapSorts[key] = sort
	if u.roKey(key) {
		u.astWrite = true
	}
	if _, ok := st.heap[key]; !ok {
		u.heapGet(st, key, sort)
	}
	if len(term) > 120 {
		n := u.fresh(key, sort)
		st.assume(sEq(n, term))
		term = n
	}
	st.heap[key] = term
}

func (u *Unit) havocHeap(st *State, key string) string {
	sort := u.heapSorts[key]
	if sort == "" {
		return ""
	}
	n := u.fresh(key, sort)
	st.heap[key] = n
	return n
}

// allHeapKeys returns the heap keys known so far (sorted).
func (u *Unit) allHeapKeys() []string {
	var ks []string
	for k := range u.heapSorts {
		ks = append(ks, k)
	}
	sort.Strings(ks)
	return ks
}

const allocKey = "alloc"

func (u *Unit) alloc(st *State) string {
	return u.heapGet(st, allocKey, "(Array Int Bool)")
}

// newRef allocates a fresh reference.
func (u *Unit) newRef(st *State, hint string) string {
	p := u.fresh("new_"+hint, "Int")
	al := u.alloc(st)
	st.assume(app(">", p, "0"))
	st.assume(sNot(app("select", al, p)))
	u.heapSet(st, allocKey, "(Array Int Bool)", app("store", al, p, "true"))
	return p
}

// ---- function keys ----

func recvTypeName(t types.Type) (ptr bool, named *types.Named) {
	t = types.Unalias(t)
	if p, ok := t.(*types.Pointer); ok {
		ptr = true
		t = types.Unalias(p.Elem())
	}
	named, _ = t.(*types.Named)
	return
}

// funcKey returns the package path and contract key of a function object.
func funcKey(f *types.Func) (pkgPath, key string) {
	f = f.Origin()
	if f.Pkg() != nil {
		pkgPath = f.Pkg().Path()
	}
	sig := f.Type().(*types.Signature)
	if sig.Recv() == nil {
		return pkgPath, f.Name()
	}
	ptr, named := recvTypeName(sig.Recv().Type())
	if named == nil {
		// method of an unnamed interface etc.
		return pkgPath, "(?)." + f.Name()
	}
	name := named.Obj().Name()
	if named.Obj().Pkg() != nil {
		pkgPath = named.Obj().Pkg().Path()
	}
	if ptr {
		return pkgPath, "(*" + name + ")." + f.Name()
	}
	return pkgPath, "(" + name + ")." + f.Name()
}

// splitExternKey turns "go/version.Compare" or "(*go/types.Array).Elem" into pkg path and key.
func splitExternKey(k string) (pkgPath, key string) {
	if strings.HasPrefix(k, "(") {
		end := strings.Index(k, ")")
		inner := k[1:end]
		ptr := strings.HasPrefix(inner, "*")
		inner = strings.TrimPrefix(inner, "*")
		dot := strings.LastIndex(inner, ".")
		if dot < 0 {
			return "", k
		}
		pkgPath = inner[:dot]
		name := inner[dot+1:]
		if ptr {
			name = "*" + name
		}
		return pkgPath, "(" + name + ")" + k[end+1:]
	}
	dot := strings.LastIndex(k, ".")
	if dot < 0 {
		return "", k
	}
	return k[:dot], k[dot+1:]
}

func (e *Engine) lookupContract(pkgPath, key string) *Contract {
	return e.contracts[pkgPath+"."+key]
}

// findFunc locates the FuncDecl/FuncLit for a contract key inside a package.
func findFunc(pkg *packages.Package, key string) (ast.Node, *ast.FuncDecl) {
	parts := strings.Split(key, "$")
	base := parts[0]
	for _, f := range pkg.Syntax {
		for _, d := range f.Decls {
			fd, ok := d.(*ast.FuncDecl)
			if !ok || fd.Body == nil {
				continue
			}
			obj, _ := pkg.TypesInfo.Defs[fd.Name].(*types.Func)
			if obj == nil {
				continue
			}
			_, k := funcKey(obj)
			if k != base {
				continue
			}
			var node ast.Node = fd
			for _, p := range parts[1:] {
				var n int
				fmt.Sscan(p, &n)
				lit := nthFuncLit(node, n)
				if lit == nil {
					return nil, fd
				}
				node = lit
			}
			return node, fd
		}
	}
	return nil, nil
}

// nthFuncLit returns the n-th (1-based, source pre-order, not nested inside another literal)
// function literal directly inside node's body.
func nthFuncLit(node ast.Node, n int) *ast.FuncLit {
	var body *ast.BlockStmt
	switch x := node.(type) {
	case *ast.FuncDecl:
		body = x.Body
	case *ast.FuncLit:
		body = x.Body
	}
	count := 0
	var found *ast.FuncLit
	ast.Inspect(body, func(nd ast.Node) bool {
		if found != nil {
			return false
		}
		if fl, ok := nd.(*ast.FuncLit); ok {
			count++
			if count == n {
				found = fl
			}
			return false // do not descend: nested literals are numbered relative to their parent
		}
		return true
	})
	return found
}

// litKeysOf numbers the function literals inside node (recursively) with keys base$k.
func litKeysOf(node ast.Node, base string, out map[*ast.FuncLit]string) {
	var body *ast.BlockStmt
	switch x := node.(type) {
	case *ast.FuncDecl:
		body = x.Body
	case *ast.FuncLit:
		body = x.Body
	}
	if body == nil {
		return
	}
	count := 0
	ast.Inspect(body, func(nd ast.Node) bool {
		if fl, ok := nd.(*ast.FuncLit); ok {
			count++
			k := fmt.Sprintf("%s$%d", base, count)
			out[fl] = k
			litKeysOf(fl, k, out)
			return false
		}
		return true
	})
}
