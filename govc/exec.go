package main

// Symbolic execution of statements; loops cut at invariants; function-level verification.

import (
	"go/constant"
	"fmt"
	"go/ast"
	"go/token"
	"go/types"
	"sort"
	"strconv"
	"strings"
)

type frameKind int

const (
	frFunc frameKind = iota
	frLoop
	frSwitch
)

type xframe struct {
	kind  frameKind
	label string
	exits []Exit
}

func (u *Unit) pushFrame(k frameKind) *xframe {
	f := &xframe{kind: k, label: u.pendingLabel}
	u.pendingLabel = ""
	u.xframes = append(u.xframes, f)
	return f
}

func (u *Unit) popFrame() { u.xframes = u.xframes[:len(u.xframes)-1] }

func (u *Unit) addExit(ex Exit, pos token.Pos) {
	for i := len(u.xframes) - 1; i >= 0; i-- {
		f := u.xframes[i]
		switch ex.kind {
		case exReturn:
			if f.kind == frFunc {
				f.exits = append(f.exits, ex)
				return
			}
		case exBreak:
			if f.kind == frFunc {
				u.unsupported(pos, "break outside loop")
			}
			if ex.label == "" || ex.label == f.label {
				f.exits = append(f.exits, ex)
				return
			}
		case exContinue:
			if f.kind == frFunc {
				u.unsupported(pos, "continue outside loop")
			}
			if f.kind == frLoop && (ex.label == "" || ex.label == f.label) {
				f.exits = append(f.exits, ex)
				return
			}
		}
	}
	u.unsupported(pos, "no target frame for exit")
}

func (u *Unit) execBlock(st *State, list []ast.Stmt) *State {
	for _, s := range list {
		if st == nil {
			return nil
		}
		st = u.exec(st, s)
	}
	return st
}

func (u *Unit) isAbstract(kind string) bool {
	if u.contract == nil {
		return false
	}
	for _, a := range u.contract.Abstract {
		if a == kind {
			return true
		}
	}
	return false
}

func (u *Unit) exec(st *State, s ast.Stmt) *State {
	switch x := s.(type) {
	case *ast.BlockStmt:
		return u.execBlock(st, x.List)
	case *ast.EmptyStmt:
		return st
	case *ast.ExprStmt:
		if c, ok := ast.Unparen(x.X).(*ast.CallExpr); ok {
			u.call(st, c)
			if isFalse(st) {
				return nil
			}
			return st
		}
		u.eval(st, x.X)
		return st
	case *ast.AssignStmt:
		u.execAssign(st, x)
		return st
	case *ast.DeclStmt:
		gd := x.Decl.(*ast.GenDecl)
		if gd.Tok != token.VAR {
			return st
		}
		for _, sp := range gd.Specs {
			vs := sp.(*ast.ValueSpec)
			if len(vs.Values) == 0 {
				for _, n := range vs.Names {
					obj := u.info.Defs[n]
					if obj != nil {
						st.vars[obj] = u.zero(obj.Type())
					}
				}
				continue
			}
			if len(vs.Values) == 1 && len(vs.Names) > 1 {
				rs := u.evalMulti(st, vs.Values[0], len(vs.Names))
				for i, n := range vs.Names {
					if obj := u.info.Defs[n]; obj != nil {
						u.bind(st, obj, u.convert(rs[i], obj.Type()))
					}
				}
				continue
			}
			for i, n := range vs.Names {
				v := u.evalRHS(st, vs.Values[i], n)
				if obj := u.info.Defs[n]; obj != nil {
					u.bind(st, obj, u.convert(v, obj.Type()))
				}
			}
		}
		return st
	case *ast.IncDecStmt:
		cur := u.eval(st, x.X)
		op := "+"
		if x.Tok == token.DEC {
			op = "-"
		}
		u.assign(st, x.X, Val{T: app(op, cur.T, "1"), Ty: cur.Ty, So: cur.So})
		return st
	case *ast.IfStmt:
		return u.execIf(st, x)
	case *ast.ForStmt:
		return u.execFor(st, x)
	case *ast.RangeStmt:
		return u.execRange(st, x)
	case *ast.SwitchStmt:
		return u.execSwitch(st, x)
	case *ast.TypeSwitchStmt:
		return u.execTypeSwitch(st, x)
	case *ast.ReturnStmt:
		u.execReturn(st, x)
		return nil
	case *ast.BranchStmt:
		label := ""
		if x.Label != nil {
			label = x.Label.Name
		}
		switch x.Tok {
		case token.BREAK:
			u.addExit(Exit{kind: exBreak, label: label, st: st}, x.Pos())
			return nil
		case token.CONTINUE:
			u.addExit(Exit{kind: exContinue, label: label, st: st}, x.Pos())
			return nil
		}
		u.unsupported(x.Pos(), "%s statement", x.Tok)
	case *ast.LabeledStmt:
		u.pendingLabel = x.Label.Name
		r := u.exec(st, x.Stmt)
		u.pendingLabel = ""
		return r
	case *ast.DeferStmt:
		if u.isAbstract("defer") {
			u.noteAbstract(x.Pos(), "defer statement ignored")
			return st
		}
		u.unsupported(x.Pos(), "defer")
	case *ast.GoStmt:
		if u.isAbstract("go") {
			u.noteAbstract(x.Pos(), "go statement: heap havocked")
			u.havocAll(st)
			return st
		}
		u.unsupported(x.Pos(), "go statement")
	case *ast.SendStmt, *ast.SelectStmt:
		u.unsupported(s.Pos(), "channel operation")
	}
	u.unsupported(s.Pos(), "statement %T", s)
	return nil
}

func (u *Unit) noteAbstract(pos token.Pos, msg string) {
	m := u.posStr(pos) + ": " + msg
	for _, a := range u.abstracted {
		if a == m {
			return
		}
	}
	u.abstracted = append(u.abstracted, m)
}

func isFalse(st *State) bool {
	return len(st.hyps) > 0 && st.hyps[len(st.hyps)-1] == "false"
}

// evalRHS evaluates a right-hand side; function literals assigned to a variable are remembered.
func (u *Unit) evalRHS(st *State, e ast.Expr, lhs ast.Expr) Val {
	if lit, ok := ast.Unparen(e).(*ast.FuncLit); ok {
		if id, ok := lhs.(*ast.Ident); ok {
			if obj := u.info.ObjectOf(id); obj != nil {
				u.closures[obj] = lit
			}
		}
	}
	return u.eval(st, e)
}

// evalMulti evaluates an expression producing n values (call, comma-ok forms).
func (u *Unit) evalMulti(st *State, e ast.Expr, n int) []Val {
	e = ast.Unparen(e)
	switch x := e.(type) {
	case *ast.CallExpr:
		rs := u.call(st, x)
		if len(rs) != n {
			u.unsupported(e.Pos(), "call yields %d values, want %d", len(rs), n)
		}
		return rs
	case *ast.IndexExpr:
		base := u.eval(st, x.X)
		mt, ok := base.Ty.Underlying().(*types.Map)
		if !ok {
			u.unsupported(e.Pos(), "comma-ok index on %v", base.Ty)
		}
		k := u.convert(u.eval(st, x.Index), mt.Key())
		v, present := u.mapGet(base, k.T, mt)
		return []Val{{T: v, Ty: mt.Elem(), So: u.sortOf(mt.Elem())}, {T: present, Ty: boolT, So: "Bool"}}
	case *ast.TypeAssertExpr:
		v, ok := u.typeAssert(st, x, true)
		return []Val{v, {T: ok, Ty: boolT, So: "Bool"}}
	}
	u.unsupported(e.Pos(), "multi-value expression %T", e)
	return nil
}

func (u *Unit) execAssign(st *State, x *ast.AssignStmt) {
	if x.Tok != token.ASSIGN && x.Tok != token.DEFINE {
		// op=
		cur := u.eval(st, x.Lhs[0])
		rhs := u.eval(st, x.Rhs[0])
		op := map[token.Token]token.Token{
			token.ADD_ASSIGN: token.ADD, token.SUB_ASSIGN: token.SUB, token.MUL_ASSIGN: token.MUL, token.QUO_ASSIGN: token.QUO,
			token.REM_ASSIGN: token.REM, token.AND_ASSIGN: token.AND, token.OR_ASSIGN: token.OR, token.XOR_ASSIGN: token.XOR,
			token.SHL_ASSIGN: token.SHL, token.SHR_ASSIGN: token.SHR, token.AND_NOT_ASSIGN: token.AND_NOT,
		}[x.Tok]
		v := u.arith(st, op, cur, rhs, cur.Ty, x.Pos())
		u.assign(st, x.Lhs[0], v)
		return
	}
	// p := &s[i] : lvalue alias for a slice element
	if x.Tok == token.DEFINE && len(x.Lhs) == 1 && len(x.Rhs) == 1 {
		if ue, ok := ast.Unparen(x.Rhs[0]).(*ast.UnaryExpr); ok && ue.Op == token.AND {
			if ix, ok := ast.Unparen(ue.X).(*ast.IndexExpr); ok {
				if _, isSlice := u.typeOf(ix.X).Underlying().(*types.Slice); isSlice {
					if id, ok := x.Lhs[0].(*ast.Ident); ok {
						idx := u.eval(st, ix.Index)
						base := u.eval(st, ix.X)
						_, _, ln, _ := u.sliceParts(base)
						u.safe("index", x.Pos(), st, sAnd(app("<=", "0", idx.T), app("<", idx.T, ln)), "0 <= index < len")
						if obj := u.info.Defs[id]; obj != nil {
							u.elemAlias[obj] = elemAlias{base: ix.X, idx: idx.T}
							return
						}
					}
				}
			}
		}
	}
	var vals []Val
	if len(x.Rhs) == 1 && len(x.Lhs) > 1 {
		vals = u.evalMulti(st, x.Rhs[0], len(x.Lhs))
	} else {
		for i, r := range x.Rhs {
			vals = append(vals, u.evalRHS(st, r, x.Lhs[i]))
		}
	}
	for i, l := range x.Lhs {
		if x.Tok == token.DEFINE {
			id := l.(*ast.Ident)
			if id.Name == "_" {
				continue
			}
			if obj := u.info.Defs[id]; obj != nil {
				u.bind(st, obj, u.convert(vals[i], obj.Type()))
				continue
			}
		}
		u.assign(st, l, vals[i])
	}
}

func (u *Unit) execReturn(st *State, x *ast.ReturnStmt) {
	var rs []Val
	if len(x.Results) == 0 {
		for _, r := range u.results {
			if v, ok := st.vars[r]; ok {
				rs = append(rs, v)
			} else {
				rs = append(rs, u.zero(r.Type()))
			}
		}
	} else if len(x.Results) == 1 && len(u.results) > 1 {
		rs = u.evalMulti(st, x.Results[0], len(u.results))
		for i := range rs {
			rs[i] = u.convert(rs[i], u.results[i].Type())
		}
	} else {
		for i, e := range x.Results {
			v := u.eval(st, e)
			if i < len(u.results) {
				v = u.convert(v, u.results[i].Type())
			}
			rs = append(rs, v)
		}
	}
	if isFalse(st) {
		return
	}
	if u.contract != nil && u.inlineDepth == 0 && u.contract.ReturnAsserts != nil {
		if k, ok := u.returnOrd[x]; ok {
			if cls := u.contract.ReturnAsserts[k]; len(cls) > 0 {
				env := u.funcEnvAt(st, x.Pos())
				env.results = rs
				for i, r := range u.results {
					if r.Name() != "" && r.Name() != "_" && i < len(rs) {
						env.names[r.Name()] = rs[i]
					}
				}
				for _, cl := range cls {
					u.checkClause(env, cl, "assert", fmt.Sprintf("%s@return%d", labelOr(cl.Label, "a"), k), x.Pos(), st, true)
				}
			}
		}
	}
	u.addExit(Exit{kind: exReturn, st: st, results: rs}, x.Pos())
}

// join2 joins the two arms of a conditional.
func (u *Unit) join2(base *State, c string, a, b *State) *State {
	if a == nil {
		return b
	}
	if b == nil {
		return a
	}
	epoch := u.syncEpochs([]*State{a, b})
	out := base.clone()
	out.epoch = epoch
	nb := len(base.hyps)
	nc := sNot(c)
	for _, h := range a.hyps[nb:] {
		if h != c {
			out.assume(sImp(c, h))
		}
	}
	for _, h := range b.hyps[nb:] {
		if h != nc {
			out.assume(sImp(nc, h))
		}
	}
	for k, bv := range base.vars {
		av, aok := a.vars[k]
		bbv, bok := b.vars[k]
		if !aok {
			av = bv
		}
		if !bok {
			bbv = bv
		}
		if av.T == bbv.T {
			out.vars[k] = av
		} else {
			u.bind(out, k, Val{T: sIte(c, av.T, bbv.T), Ty: bv.Ty, So: bv.So})
		}
	}
	// variables first bound inside both arms (e.g. lazily bound captured variables)
	for k, av := range a.vars {
		if _, ok := base.vars[k]; ok {
			continue
		}
		if bbv, ok := b.vars[k]; ok {
			if av.T == bbv.T {
				out.vars[k] = av
			} else {
				u.bind(out, k, Val{T: sIte(c, av.T, bbv.T), Ty: av.Ty, So: av.So})
			}
		}
	}
	hk := map[string]bool{}
	for k := range a.heap {
		hk[k] = true
	}
	for k := range b.heap {
		hk[k] = true
	}
	for k := range hk {
		av := u.heapGet(a, k, u.heapSorts[k])
		bv := u.heapGet(b, k, u.heapSorts[k])
		delete(out.heap, k)
		if av == bv {
			out.heap[k] = av
		} else {
			t := sIte(c, av, bv)
			if strings.HasPrefix(t, "(ite ") {
				n := u.fresh(k, u.heapSorts[k])
				out.assume(sEq(n, t))
				t = n
			}
			out.heap[k] = t
		}
	}
	gk := map[string]bool{}
	for k := range a.ghost {
		gk[k] = true
	}
	for k := range b.ghost {
		gk[k] = true
	}
	for k := range gk {
		av, aok := a.ghost[k]
		bv, bok := b.ghost[k]
		dflt, dok := base.ghost[k]
		if !dok {
			if strings.HasPrefix(k, "count:") {
				dflt = Val{T: "0", Ty: intT, So: "Int"}
			} else if aok {
				dflt = av
			} else {
				dflt = bv
			}
		}
		if !aok {
			av = dflt
		}
		if !bok {
			bv = dflt
		}
		out.ghost[k] = Val{T: sIte(c, av.T, bv.T), Ty: av.Ty, So: av.So}
	}
	return out
}

func (u *Unit) execIf(st *State, x *ast.IfStmt) *State {
	if x.Init != nil {
		st = u.exec(st, x.Init)
		if st == nil {
			return nil
		}
	}
	// a condition that is a compile-time constant (const debugging = false) selects its branch
	if tv, ok := u.info.Types[x.Cond]; ok && tv.Value != nil && tv.Value.Kind() == constant.Bool {
		if constant.BoolVal(tv.Value) {
			return u.execBlock(st, x.Body.List)
		}
		if x.Else != nil {
			return u.exec(st, x.Else)
		}
		return st
	}
	c := u.evalCond(st, x.Cond)
	a := st.clone()
	a.assume(c)
	b := st.clone()
	b.assume(sNot(c))
	ra := u.execBlock(a, x.Body.List)
	var rb *State = b
	if x.Else != nil {
		rb = u.exec(b, x.Else)
	}
	return u.join2(st, c, ra, rb)
}

func (u *Unit) execSwitch(st *State, x *ast.SwitchStmt) *State {
	if x.Init != nil {
		st = u.exec(st, x.Init)
	}
	var tag *Val
	if x.Tag != nil {
		v := u.eval(st, x.Tag)
		tag = &v
	}
	var clauses []*ast.CaseClause
	var dflt *ast.CaseClause
	for _, s := range x.Body.List {
		cc := s.(*ast.CaseClause)
		if cc.List == nil {
			dflt = cc
		} else {
			clauses = append(clauses, cc)
		}
		for _, b := range cc.Body {
			if br, ok := b.(*ast.BranchStmt); ok && br.Tok == token.FALLTHROUGH {
				u.unsupported(br.Pos(), "fallthrough")
			}
		}
	}
	fr := u.pushFrame(frSwitch)
	var rec func(st *State, i int) *State
	rec = func(st *State, i int) *State {
		if i == len(clauses) {
			if dflt != nil {
				return u.execBlock(st, dflt.Body)
			}
			return st
		}
		cc := clauses[i]
		var cs []string
		for _, e := range cc.List {
			if tag != nil {
				v := u.eval(st, e)
				cs = append(cs, u.equal(st, *tag, v, e.Pos()))
			} else {
				cs = append(cs, u.evalCond(st, e))
			}
		}
		c := sOr(cs...)
		a := st.clone()
		a.assume(c)
		b := st.clone()
		b.assume(sNot(c))
		ra := u.execBlock(a, cc.Body)
		rb := rec(b, i+1)
		return u.join2(st, c, ra, rb)
	}
	out := rec(st, 0)
	u.popFrame()
	return u.joinBreaks(st, out, fr)
}

// joinBreaks joins the fall-through state with the break exits collected in fr.
func (u *Unit) joinBreaks(base, ft *State, fr *xframe) *State {
	var arms []*State
	if ft != nil {
		arms = append(arms, ft)
	}
	for _, ex := range fr.exits {
		if ex.kind == exBreak {
			arms = append(arms, ex.st)
		}
	}
	if len(arms) == 0 {
		return nil
	}
	j, _ := u.joinN(base, arms, nil)
	return j
}

func (u *Unit) execTypeSwitch(st *State, x *ast.TypeSwitchStmt) *State {
	if x.Init != nil {
		st = u.exec(st, x.Init)
	}
	var ta *ast.TypeAssertExpr
	var bindName *ast.Ident
	switch a := x.Assign.(type) {
	case *ast.ExprStmt:
		ta = ast.Unparen(a.X).(*ast.TypeAssertExpr)
	case *ast.AssignStmt:
		ta = ast.Unparen(a.Rhs[0]).(*ast.TypeAssertExpr)
		bindName = a.Lhs[0].(*ast.Ident)
	}
	_ = bindName
	v := u.eval(st, ta.X)
	if !isInterface(v.Ty) {
		u.unsupported(x.Pos(), "type switch on non-interface")
	}
	var clauses []*ast.CaseClause
	var dflt *ast.CaseClause
	for _, s := range x.Body.List {
		cc := s.(*ast.CaseClause)
		if cc.List == nil {
			dflt = cc
		} else {
			clauses = append(clauses, cc)
		}
	}
	fr := u.pushFrame(frSwitch)
	bindClause := func(st *State, cc *ast.CaseClause, val Val) {
		if obj := u.info.Implicits[cc]; obj != nil {
			st.vars[obj] = val
		}
	}
	var rec func(st *State, i int) *State
	rec = func(st *State, i int) *State {
		if i == len(clauses) {
			if dflt != nil {
				bindClause(st, dflt, v)
				return u.execBlock(st, dflt.Body)
			}
			return st
		}
		cc := clauses[i]
		var cs []string
		var single types.Type
		for _, e := range cc.List {
			tv := u.info.Types[e]
			if tv.IsNil() {
				cs = append(cs, sEq(v.T, "0"))
				continue
			}
			t := tv.Type
			if isInterface(t) {
				ok := app(u.sc.implementsFn(t), app("dyntype", v.T))
				cs = append(cs, sAnd(sNot(sEq(v.T, "0")), ok))
			} else {
				cs = append(cs, sEq(app("dyntype", v.T), strconv.Itoa(u.sc.tid(t))))
			}
			single = t
		}
		c := sOr(cs...)
		a := st.clone()
		a.assume(c)
		b := st.clone()
		b.assume(sNot(c))
		if len(cc.List) == 1 && single != nil && !isInterface(single) {
			_, unbox, _ := u.sc.boxFns(single)
			uv := Val{T: app(unbox, v.T), Ty: single, So: u.sortOf(single)}
			// a value of a concrete type is well-formed (slice lengths inside it are >= 0)
			if inv := u.typeInv(uv); inv != "true" {
				a.assume(inv)
			}
			bindClause(a, cc, uv)
		} else if len(cc.List) == 1 && single != nil {
			bindClause(a, cc, Val{T: v.T, Ty: single, So: "Int"})
		} else {
			bindClause(a, cc, v)
		}
		ra := u.execBlock(a, cc.Body)
		rb := rec(b, i+1)
		return u.join2(st, c, ra, rb)
	}
	out := rec(st, 0)
	u.popFrame()
	return u.joinBreaks(st, out, fr)
}

// ---- loops ----

type loopMods struct {
	vars  []types.Object
	heap  []string
	ghost []string
	all   bool // the body may havoc the whole heap
}

// discover runs body once on a scratch state to find what it may modify.
func (u *Unit) discover(st *State, run func(s *State) []*State) loopMods {
	saveObls := len(u.obls)
	saveWarn := len(u.warnings)
	saveAbs := len(u.abstracted)
	saveLoopN := u.loopN
	saveCall := map[string]int{}
	for k, v := range u.callN {
		saveCall[k] = v
	}
	saveSafe := map[string]int{}
	for k, v := range u.safeN {
		saveSafe[k] = v
	}
	saveFrames := len(u.xframes)
	saveExits := make([]int, len(u.xframes))
	for i, f := range u.xframes {
		saveExits[i] = len(f.exits)
	}
	u.discovering++
	scratch := st.clone()
	var outs []*State
	func() {
		defer func() {
			if r := recover(); r != nil {
				if _, ok := r.(unsupportedErr); ok {
					u.discovering--
					u.xframes = u.xframes[:saveFrames]
					panic(r)
				}
				panic(r)
			}
		}()
		outs = run(scratch)
	}()
	u.discovering--
	// exits recorded while discovering are not real paths
	for i, f := range u.xframes {
		if i < len(saveExits) && len(f.exits) > saveExits[i] {
			f.exits = f.exits[:saveExits[i]]
		}
	}
	u.obls = u.obls[:saveObls]
	u.warnings = u.warnings[:saveWarn]
	u.abstracted = u.abstracted[:saveAbs]
	u.loopN = saveLoopN
	u.callN = saveCall
	u.safeN = saveSafe
	var m loopMods
	seenV := map[types.Object]bool{}
	seenH := map[string]bool{}
	seenG := map[string]bool{}
	for _, o := range outs {
		if o == nil {
			continue
		}
		if o.epoch != st.epoch {
			m.all = true
		}
		for k, v := range o.vars {
			if bv, ok := st.vars[k]; ok && bv.T != v.T && !seenV[k] {
				seenV[k] = true
				m.vars = append(m.vars, k)
			}
		}
		for k, v := range o.heap {
			if bv, ok := st.heap[k]; (!ok || bv != v) && !seenH[k] {
				if !ok && v == k+"$"+st.epoch {
					continue
				}
				seenH[k] = true
				m.heap = append(m.heap, k)
			}
		}
		for k, v := range o.ghost {
			if bv, ok := st.ghost[k]; (!ok || bv.T != v.T) && !seenG[k] {
				seenG[k] = true
				m.ghost = append(m.ghost, k)
			}
		}
	}
	sort.Slice(m.vars, func(i, j int) bool { return m.vars[i].Pos() < m.vars[j].Pos() })
	sort.Strings(m.heap)
	sort.Strings(m.ghost)
	return m
}

func (u *Unit) havocMods(st *State, m loopMods) {
	if m.all {
		u.havocAll(st)
		m.heap = nil
	}
	for _, o := range m.vars {
		old := st.vars[o]
		v := Val{T: u.fresh(o.Name(), old.So), Ty: old.Ty, So: old.So}
		st.assume(u.typeInv(v))
		st.vars[o] = v
	}
	for _, k := range m.heap {
		if _, ok := st.heap[k]; !ok {
			u.heapGet(st, k, u.heapSorts[k])
		}
		if k == allocKey {
			old := st.heap[k]
			n := u.havocHeap(st, k)
			u.nfresh++
			r := fmt.Sprintf("r!%d", u.nfresh)
			st.assume(fmt.Sprintf("(forall ((%s Int)) (! (=> (select %s %s) (select %s %s)) :pattern ((select %s %s))))", r, old, r, n, r, n, r))
			continue
		}
		u.havocHeap(st, k)
	}
	for _, k := range m.ghost {
		old := st.ghost[k]
		if old.So == "" {
			continue
		}
		v := Val{T: u.fresh("ghost_"+k, old.So), Ty: old.Ty, So: old.So}
		if strings.HasPrefix(k, "count:") {
			st.assume(app(">=", v.T, old.T))
		}
		st.ghost[k] = v
	}
}

func (u *Unit) loopSpec() (*LoopSpec, int) {
	u.loopN++
	n := u.loopN
	if u.contract != nil && u.inlineDepth == 0 {
		if ls := u.contract.Loops[n]; ls != nil {
			return ls, n
		}
	}
	return &LoopSpec{N: n}, n
}

func (u *Unit) loopEnv(st *State, scope *types.Scope, pos token.Pos, extra map[string]Val) *SpecEnv {
	env := u.funcEnv(st, u.entry)
	if scope != nil {
		env.scope = scope
		env.pos = pos
	}
	for k, v := range extra {
		env.names[k] = v
	}
	if len(u.loopPre) > 0 {
		env.loopPre = u.loopPre[len(u.loopPre)-1]
	}
	return env
}

func (u *Unit) checkInvs(ls *LoopSpec, n int, kind string, env *SpecEnv, st *State, pos token.Pos) {
	for i, inv := range ls.Invariants {
		u.checkClause(env, inv, kind, fmt.Sprintf("loop%d.%s", n, labelOr(inv.Label, strconv.Itoa(i+1))), pos, st, false)
	}
}

func (u *Unit) assumeInvs(ls *LoopSpec, env *SpecEnv, st *State, pos token.Pos) {
	for _, inv := range ls.Invariants {
		for _, cj := range splitConj(inv.Expr) {
			t, err := u.trySpec(env, cj)
			if err != nil {
				u.unsupported(pos, "invariant %s: %v", inv.Text, err)
			}
			st.assume(t)
		}
	}
}

func (u *Unit) execFor(st *State, x *ast.ForStmt) *State {
	ls, n := u.loopSpec()
	if x.Init != nil {
		st = u.exec(st, x.Init)
	}
	scope := u.info.Scopes[x]
	pos := x.Body.Lbrace + 1
	u.loopPre = append(u.loopPre, st)
	defer func() { u.loopPre = u.loopPre[:len(u.loopPre)-1] }()
	u.bindLoopGhosts(ls, st, scope, pos, x.Pos())
	mods := u.discover(st, func(s *State) []*State {
		if x.Cond != nil {
			u.evalCond(s, x.Cond)
		}
		fr := u.pushFrame(frLoop)
		ft := u.execBlock(s, x.Body.List)
		u.popFrame()
		outs := []*State{ft}
		for _, ex := range fr.exits {
			if ex.kind == exContinue {
				outs = append(outs, ex.st)
			}
		}
		if x.Post != nil {
			var after []*State
			for _, o := range outs {
				if o != nil {
					after = append(after, u.exec(o, x.Post))
				}
			}
			outs = after
		}
		return outs
	})
	u.checkInvs(ls, n, "inv.init", u.loopEnv(st, scope, pos, nil), st, x.Pos())
	head := st.clone()
	u.havocMods(head, mods)
	u.loopFrame(ls, n, st, head, mods, u.loopEnv(st, scope, pos, nil), x.Pos(), false)
	u.assumeInvs(ls, u.loopEnv(head, scope, pos, nil), head, x.Pos())
	c := "true"
	if x.Cond != nil {
		c = u.evalCond(head, x.Cond)
	}
	body := head.clone()
	body.assume(c)
	fr := u.pushFrame(frLoop)
	ft := u.execBlock(body, x.Body.List)
	u.popFrame()
	var arms []*State
	if ft != nil {
		arms = append(arms, ft)
	}
	for _, ex := range fr.exits {
		if ex.kind == exContinue {
			arms = append(arms, ex.st)
		}
	}
	if len(arms) > 0 {
		j, _ := u.joinN(body, arms, nil)
		if x.Post != nil {
			j = u.exec(j, x.Post)
		}
		if j != nil {
			u.checkInvs(ls, n, "inv.keep", u.loopEnv(j, scope, pos, nil), j, x.Pos())
			u.loopFrame(ls, n, st, j, mods, u.loopEnv(st, scope, pos, nil), x.Pos(), true)
		}
	}
	var exit *State
	if c != "true" {
		exit = head.clone()
		exit.assume(sNot(c))
	}
	return u.joinBreaks(head, exit, fr)
}

func (u *Unit) execRange(st *State, x *ast.RangeStmt) *State {
	ls, n := u.loopSpec()
	xt := u.typeOf(x.X)
	scope := u.info.Scopes[x]
	pos := x.Body.Lbrace + 1
	var keyObj, valObj types.Object
	if id, ok := x.Key.(*ast.Ident); ok && id.Name != "_" {
		keyObj = u.info.ObjectOf(id)
	} else if x.Key != nil {
		if _, ok := x.Key.(*ast.Ident); !ok {
			u.unsupported(x.Pos(), "range with non-identifier key")
		}
	}
	if id, ok := x.Value.(*ast.Ident); ok && id.Name != "_" {
		valObj = u.info.ObjectOf(id)
	} else if x.Value != nil {
		if _, ok := x.Value.(*ast.Ident); !ok {
			u.unsupported(x.Pos(), "range with non-identifier value")
		}
	}
	coll := u.eval(st, x.X)
	u.loopPre = append(u.loopPre, st)
	defer func() { u.loopPre = u.loopPre[:len(u.loopPre)-1] }()
	u.bindLoopGhosts(ls, st, scope, pos, x.Pos())
	runBody := func(s *State) (*State, *xframe) {
		fr := u.pushFrame(frLoop)
		ft := u.execBlock(s, x.Body.List)
		u.popFrame()
		return ft, fr
	}
	continues := func(ft *State, fr *xframe) []*State {
		var arms []*State
		if ft != nil {
			arms = append(arms, ft)
		}
		for _, ex := range fr.exits {
			if ex.kind == exContinue {
				arms = append(arms, ex.st)
			}
		}
		return arms
	}
	switch ct := xt.Underlying().(type) {
	case *types.Slice, *types.Array, *types.Basic, *types.Pointer:
		var length string
		var elemT types.Type
		elemAt := func(k string) string { return "" }
		switch t := ct.(type) {
		case *types.Slice:
			_, _, length, _ = u.sliceParts(coll)
			elemT = t.Elem()
			elemAt = func(k string) string { return u.sliceAt(coll, k) }
		case *types.Array:
			length = strconv.FormatInt(t.Len(), 10)
			elemT = t.Elem()
			elemAt = func(k string) string { return app("select", coll.T, k) }
		case *types.Basic:
			if t.Info()&types.IsInteger != 0 {
				length = coll.T
			} else if t.Info()&types.IsString != 0 {
				// range over string: bytes == runes under the ASCII assumption
				length = app("str.len", coll.T)
				elemT = types.Typ[types.Rune]
				elemAt = func(k string) string { return app("str.to_code", app("str.at", coll.T, k)) }
				u.noteAbstract(x.Pos(), "range over string treated as range over bytes (ASCII assumption)")
			} else {
				u.unsupported(x.Pos(), "range over %v", xt)
			}
		default:
			u.unsupported(x.Pos(), "range over %v", xt)
		}
		bindIter := func(s *State, k string) {
			if keyObj != nil {
				s.vars[keyObj] = Val{T: k, Ty: keyObj.Type(), So: "Int"}
			}
			if valObj != nil && elemT != nil {
				s.vars[valObj] = Val{T: elemAt(k), Ty: valObj.Type(), So: u.sortOf(valObj.Type())}
			}
		}
		extra := func(k string) map[string]Val {
			m := map[string]Val{}
			if ls.Index != "" {
				m[ls.Index] = Val{T: k, Ty: intT, So: "Int"}
			}
			return m
		}
		mods := u.discover(st, func(s *State) []*State {
			k := u.fresh("k", "Int")
			bindIter(s, k)
			if ls.Index != "" {
				s.ghost[ls.Index] = Val{T: k, Ty: intT, So: "Int"}
			}
			ft, fr := runBody(s)
			return continues(ft, fr)
		})
		// drop the loop's own variables from the modified set
		mods.vars = dropObjs(mods.vars, keyObj, valObj)
		if ls.Index != "" {
			var gs []string
			for _, g := range mods.ghost {
				if g != ls.Index {
					gs = append(gs, g)
				}
			}
			mods.ghost = gs
		}
		// invariant on entry: index 0
		init := st.clone()
		bindIter(init, "0")
		u.checkInvs(ls, n, "inv.init", u.loopEnv(init, scope, pos, extra("0")), init, x.Pos())
		head := st.clone()
		u.havocMods(head, mods)
		u.loopFrame(ls, n, st, head, mods, u.loopEnv(st, scope, pos, nil), x.Pos(), false)
		k := u.fresh("i", "Int")
		head.assume(sAnd(app("<=", "0", k), app("<=", k, length)))
		hb := head.clone()
		bindIter(hb, k)
		u.assumeInvs(ls, u.loopEnv(hb, scope, pos, extra(k)), hb, x.Pos())
		// propagate assumed invariants to head (they do not mention the iteration variables' bindings other than k)
		head.hyps = hb.hyps
		body := head.clone()
		body.assume(app("<", k, length))
		bindIter(body, k)
		if ls.Index != "" {
			body.ghost[ls.Index] = Val{T: k, Ty: intT, So: "Int"}
		}
		ft, fr := runBody(body)
		if arms := continues(ft, fr); len(arms) > 0 {
			j, _ := u.joinN(body, arms, nil)
			k1 := app("+", k, "1")
			bindIter(j, k1)
			u.checkInvs(ls, n, "inv.keep", u.loopEnv(j, scope, pos, extra(k1)), j, x.Pos())
			u.loopFrame(ls, n, st, j, mods, u.loopEnv(st, scope, pos, nil), x.Pos(), true)
		}
		exit := head.clone()
		exit.assume(sEq(k, length))
		if ls.Index != "" {
			exit.ghost[ls.Index] = Val{T: k, Ty: intT, So: "Int"}
		}
		out := u.joinBreaks(head, exit, fr)
		return out
	case *types.Map:
		ks := u.sortOf(ct.Key())
		setSort := "(Array " + ks + " Bool)"
		dom := app("mdom_"+coll.So, coll.T)
		bindIter := func(s *State, k string) {
			if keyObj != nil {
				s.vars[keyObj] = Val{T: k, Ty: keyObj.Type(), So: ks}
			}
			if valObj != nil {
				s.vars[valObj] = Val{T: app("select", app("mval_"+coll.So, coll.T), k), Ty: valObj.Type(), So: u.sortOf(valObj.Type())}
			}
		}
		vname := ls.Visited
		if vname == "" {
			vname = fmt.Sprintf("visited$%d", n)
		}
		extra := func(vis string) map[string]Val {
			return map[string]Val{vname: {T: vis, So: setSort}}
		}
		mods := u.discover(st, func(s *State) []*State {
			k := u.fresh("k", ks)
			bindIter(s, k)
			s.ghost[vname] = Val{T: u.fresh("visited", setSort), So: setSort}
			ft, fr := runBody(s)
			return continues(ft, fr)
		})
		mods.vars = dropObjs(mods.vars, keyObj, valObj)
		{
			var gs []string
			for _, g := range mods.ghost {
				if g != vname {
					gs = append(gs, g)
				}
			}
			mods.ghost = gs
		}
		empty := fmt.Sprintf("((as const %s) false)", setSort)
		u.checkInvs(ls, n, "inv.init", u.loopEnv(st, scope, pos, extra(empty)), st, x.Pos())
		head := st.clone()
		u.havocMods(head, mods)
		u.loopFrame(ls, n, st, head, mods, u.loopEnv(st, scope, pos, nil), x.Pos(), false)
		vis := u.fresh("visited", setSort)
		u.nfresh++
		q := fmt.Sprintf("vk!%d", u.nfresh)
		head.assume(fmt.Sprintf("(forall ((%s %s)) (! (=> (select %s %s) (select %s %s)) :pattern ((select %s %s))))", q, ks, vis, q, dom, q, vis, q))
		u.assumeInvs(ls, u.loopEnv(head, scope, pos, extra(vis)), head, x.Pos())
		body := head.clone()
		k := u.fresh("key", ks)
		body.assume(sAnd(app("select", dom, k), sNot(app("select", vis, k))))
		bindIter(body, k)
		body.ghost[vname] = Val{T: vis, So: setSort} // visible to the invariants of nested loops
		ft, fr := runBody(body)
		if arms := continues(ft, fr); len(arms) > 0 {
			j, _ := u.joinN(body, arms, nil)
			vis1 := app("store", vis, k, "true")
			u.checkInvs(ls, n, "inv.keep", u.loopEnv(j, scope, pos, extra(vis1)), j, x.Pos())
			u.loopFrame(ls, n, st, j, mods, u.loopEnv(st, scope, pos, nil), x.Pos(), true)
		}
		exit := head.clone()
		exit.assume(fmt.Sprintf("(forall ((%s %s)) (! (=> (select %s %s) (select %s %s)) :pattern ((select %s %s))))", q, ks, dom, q, vis, q, dom, q))
		return u.joinBreaks(head, exit, fr)
	case *types.Signature:
		// range over an iterator function: an arbitrary number of iterations with arbitrary values
		mods := u.discover(st, func(s *State) []*State {
			if keyObj != nil {
				s.vars[keyObj] = u.mkVal(u.fresh("y", u.sortOf(keyObj.Type())), keyObj.Type())
			}
			if valObj != nil {
				s.vars[valObj] = u.mkVal(u.fresh("y", u.sortOf(valObj.Type())), valObj.Type())
			}
			ft, fr := runBody(s)
			return continues(ft, fr)
		})
		mods.vars = dropObjs(mods.vars, keyObj, valObj)
		u.checkInvs(ls, n, "inv.init", u.loopEnv(st, scope, pos, nil), st, x.Pos())
		head := st.clone()
		u.havocMods(head, mods)
		u.loopFrame(ls, n, st, head, mods, u.loopEnv(st, scope, pos, nil), x.Pos(), false)
		u.assumeInvs(ls, u.loopEnv(head, scope, pos, nil), head, x.Pos())
		body := head.clone()
		if keyObj != nil {
			v := u.mkVal(u.fresh(keyObj.Name(), u.sortOf(keyObj.Type())), keyObj.Type())
			body.assume(u.typeInv(v))
			body.vars[keyObj] = v
		}
		if valObj != nil {
			v := u.mkVal(u.fresh(valObj.Name(), u.sortOf(valObj.Type())), valObj.Type())
			body.assume(u.typeInv(v))
			body.vars[valObj] = v
		}
		for _, y := range ls.Yields {
			t, err := u.trySpec(u.loopEnv(body, scope, pos, nil), y.Expr)
			if err != nil {
				u.unsupported(x.Pos(), "yields %s: %v", y.Text, err)
			}
			body.assume(t)
		}
		u.noteAbstract(x.Pos(), "range over iterator function: arbitrary finite sequence of values")
		ft, fr := runBody(body)
		if arms := continues(ft, fr); len(arms) > 0 {
			j, _ := u.joinN(body, arms, nil)
			u.checkInvs(ls, n, "inv.keep", u.loopEnv(j, scope, pos, nil), j, x.Pos())
			u.loopFrame(ls, n, st, j, mods, u.loopEnv(st, scope, pos, nil), x.Pos(), true)
		}
		exit := head.clone()
		for _, y := range ls.Exhausts {
			t, err := u.trySpec(u.loopEnv(exit, scope, pos, nil), y.Expr)
			if err != nil {
				u.unsupported(x.Pos(), "exhausts %s: %v", y.Text, err)
			}
			exit.assume(t)
		}
		return u.joinBreaks(head, exit, fr)
	}
	u.unsupported(x.Pos(), "range over %v", xt)
	return nil
}

func dropObjs(in []types.Object, drop ...types.Object) []types.Object {
	var out []types.Object
	for _, o := range in {
		skip := false
		for _, d := range drop {
			if d != nil && o == d {
				skip = true
			}
		}
		if !skip {
			out = append(out, o)
		}
	}
	return out
}

// bindLoopGhosts evaluates `loop N ghost name = expr` clauses once at loop entry.
func (u *Unit) bindLoopGhosts(ls *LoopSpec, st *State, scope *types.Scope, pos, at token.Pos) {
	for _, g := range ls.Ghosts {
		env := u.loopEnv(st, scope, pos, nil)
		var v Val
		func() {
			defer func() {
				if r := recover(); r != nil {
					if se, ok := r.(specErr); ok {
						u.unsupported(at, "loop ghost %s: %s", g.Text, se.msg)
					}
					panic(r)
				}
			}()
			v = env.eval(g.Expr)
		}()
		st.ghost[g.Name] = v
	}
}
