package main

// Contract language: lexer, Pratt parser, and reader of contracts_verif.go files.
//
// Contracts live in comment-only Go files `contracts_verif.go` (build tag verif) inside
// the /repo packages. Every line starting with `//@` belongs to the contract language;
// other comment lines are prose.

import (
	"fmt"
	"os"
	"strconv"
	"strings"
	"unicode"
)

// ---------- AST ----------

type SExpr interface{ String() string }

type (
	SIdent  struct{ Name string }
	SInt    struct{ V string }
	SStr    struct{ V string }
	SChar   struct{ V int }
	SBool   struct{ V bool }
	SNil    struct{}
	SUnary  struct {
		Op string
		X  SExpr
	}
	SBinary struct {
		Op   string
		X, Y SExpr
	}
	SCond  struct{ C, A, B SExpr }
	SCall  struct {
		Fun  SExpr
		Args []SExpr
	}
	SIndex struct{ X, I SExpr }
	SSlice struct{ X, Lo, Hi SExpr }
	SSel   struct {
		X    SExpr
		Name string
	}
	SQuant struct {
		Forall   bool
		Vars     []SVar
		Triggers [][]SExpr
		Body     SExpr
	}
	SOld   struct{ X SExpr }
	SType  struct{ T *STypeExpr } // a type used as an argument (istype(x, T))
	SDeref struct{ X SExpr }
)

type SVar struct {
	Name string
	T    *STypeExpr
}

// STypeExpr is a tiny Go type syntax: int, string, []T, *T, map[K]V, pkg.T, T, set[T]
type STypeExpr struct {
	Kind string // "name", "slice", "ptr", "map", "set", "array"
	Name string // for "name": possibly qualified "pkg.T"
	Elem *STypeExpr
	Key  *STypeExpr
	Args []*STypeExpr // for "func": parameter types (Elem is the result)
}

func (t *STypeExpr) String() string {
	switch t.Kind {
	case "name":
		return t.Name
	case "slice":
		return "[]" + t.Elem.String()
	case "ptr":
		return "*" + t.Elem.String()
	case "map":
		return "map[" + t.Key.String() + "]" + t.Elem.String()
	case "set":
		return "set[" + t.Elem.String() + "]"
	case "array":
		return "array[" + t.Key.String() + "]" + t.Elem.String()
	case "goarray":
		return "[" + t.Name + "]" + t.Elem.String()
	case "func":
		var as []string
		for _, a := range t.Args {
			as = append(as, a.String())
		}
		return "func(" + strings.Join(as, ", ") + ") " + t.Elem.String()
	}
	return "?"
}

func (e *SIdent) String() string { return e.Name }
func (e *SInt) String() string   { return e.V }
func (e *SStr) String() string   { return strconv.Quote(e.V) }
func (e *SChar) String() string  { return fmt.Sprintf("%q", rune(e.V)) }
func (e *SBool) String() string  { return fmt.Sprint(e.V) }
func (e *SNil) String() string   { return "nil" }
func (e *SUnary) String() string { return e.Op + e.X.String() }
func (e *SBinary) String() string {
	return "(" + e.X.String() + " " + e.Op + " " + e.Y.String() + ")"
}
func (e *SCond) String() string {
	return "(" + e.C.String() + " ? " + e.A.String() + " : " + e.B.String() + ")"
}
func (e *SCall) String() string {
	var a []string
	for _, x := range e.Args {
		a = append(a, x.String())
	}
	return e.Fun.String() + "(" + strings.Join(a, ", ") + ")"
}
func (e *SIndex) String() string { return e.X.String() + "[" + e.I.String() + "]" }
func (e *SSlice) String() string {
	lo, hi := "", ""
	if e.Lo != nil {
		lo = e.Lo.String()
	}
	if e.Hi != nil {
		hi = e.Hi.String()
	}
	return e.X.String() + "[" + lo + ":" + hi + "]"
}
func (e *SSel) String() string { return e.X.String() + "." + e.Name }
func (e *SQuant) String() string {
	q := "exists"
	if e.Forall {
		q = "forall"
	}
	var vs []string
	for _, v := range e.Vars {
		vs = append(vs, v.Name+" "+v.T.String())
	}
	return "(" + q + " " + strings.Join(vs, ", ") + " :: " + e.Body.String() + ")"
}
func (e *SOld) String() string   { return "old(" + e.X.String() + ")" }
func (e *SType) String() string  { return e.T.String() }
func (e *SDeref) String() string { return "*" + e.X.String() }

// ---------- lexer ----------

type tok struct {
	kind string // ident int str char op eof
	text string
	pos  int
}

func lex(src string) ([]tok, error) {
	var toks []tok
	i := 0
	for i < len(src) {
		c := src[i]
		switch {
		case c == ' ' || c == '\t' || c == '\n' || c == '\r':
			i++
		case unicode.IsLetter(rune(c)) || c == '_' || c == '$':
			j := i
			for j < len(src) && (unicode.IsLetter(rune(src[j])) || unicode.IsDigit(rune(src[j])) || src[j] == '_' || src[j] == '$') {
				j++
			}
			toks = append(toks, tok{"ident", src[i:j], i})
			i = j
		case c >= '0' && c <= '9':
			j := i
			for j < len(src) && (src[j] >= '0' && src[j] <= '9' || src[j] == 'x' || src[j] >= 'a' && src[j] <= 'f' || src[j] >= 'A' && src[j] <= 'F' || src[j] == '_') {
				j++
			}
			toks = append(toks, tok{"int", src[i:j], i})
			i = j
		case c == '"':
			j := i + 1
			for j < len(src) && src[j] != '"' {
				if src[j] == '\\' {
					j++
				}
				j++
			}
			if j >= len(src) {
				return nil, fmt.Errorf("unterminated string at %d", i)
			}
			s, err := strconv.Unquote(src[i : j+1])
			if err != nil {
				return nil, fmt.Errorf("bad string %s: %v", src[i:j+1], err)
			}
			toks = append(toks, tok{"str", s, i})
			i = j + 1
		case c == '\'':
			j := i + 1
			for j < len(src) && src[j] != '\'' {
				if src[j] == '\\' {
					j++
				}
				j++
			}
			if j >= len(src) {
				return nil, fmt.Errorf("unterminated char at %d", i)
			}
			r, _, _, err := strconv.UnquoteChar(src[i+1:j], '\'')
			if err != nil {
				return nil, fmt.Errorf("bad char %s: %v", src[i:j+1], err)
			}
			toks = append(toks, tok{"char", strconv.Itoa(int(r)), i})
			i = j + 1
		default:
			ops := []string{"<==>", "==>", "::", "==", "!=", "<=", ">=", "&&", "||", "<<", ">>", "&^"}
			matched := false
			for _, op := range ops {
				if strings.HasPrefix(src[i:], op) {
					toks = append(toks, tok{"op", op, i})
					i += len(op)
					matched = true
					break
				}
			}
			if !matched {
				if strings.ContainsRune("+-*/%<>!()[]{},.:?&|^", rune(c)) {
					toks = append(toks, tok{"op", string(c), i})
					i++
				} else {
					return nil, fmt.Errorf("unexpected character %q at %d in %q", c, i, src)
				}
			}
		}
	}
	toks = append(toks, tok{"eof", "", len(src)})
	return toks, nil
}

// ---------- parser ----------

type sparser struct {
	toks []tok
	p    int
	src  string
}

func (p *sparser) peek() tok { return p.toks[p.p] }
func (p *sparser) next() tok { t := p.toks[p.p]; p.p++; return t }
func (p *sparser) isOp(s string) bool {
	t := p.peek()
	return t.kind == "op" && t.text == s
}
func (p *sparser) isIdent(s string) bool {
	t := p.peek()
	return t.kind == "ident" && t.text == s
}
func (p *sparser) expectOp(s string) {
	if !p.isOp(s) {
		panic(fmt.Errorf("expected %q at %d, got %q in %q", s, p.peek().pos, p.peek().text, p.src))
	}
	p.next()
}

func parseSpecExpr(src string) (e SExpr, err error) {
	toks, err := lex(src)
	if err != nil {
		return nil, err
	}
	p := &sparser{toks: toks, src: src}
	defer func() {
		if r := recover(); r != nil {
			if er, ok := r.(error); ok {
				err = er
				return
			}
			panic(r)
		}
	}()
	e = p.parseExpr(0)
	if p.peek().kind != "eof" {
		return nil, fmt.Errorf("trailing input %q at %d in %q", p.peek().text, p.peek().pos, src)
	}
	return e, nil
}

// binary precedence
var binPrec = map[string]int{
	"<==>": 1, "==>": 2, "||": 4, "&&": 5,
	"==": 6, "!=": 6, "<": 6, "<=": 6, ">": 6, ">=": 6, "in": 6,
	"+": 7, "-": 7, "|": 7, "^": 7,
	"*": 8, "/": 8, "%": 8, "&": 8, "<<": 8, ">>": 8, "&^": 8,
}

func (p *sparser) parseExpr(minPrec int) SExpr {
	// quantifiers bind loosest and extend to the right
	if p.isIdent("forall") || p.isIdent("exists") {
		return p.parseQuant()
	}
	lhs := p.parseUnary()
	for {
		t := p.peek()
		var op string
		if t.kind == "op" {
			op = t.text
		} else if t.kind == "ident" && t.text == "in" {
			op = "in"
		}
		if op == "?" && minPrec <= 3 {
			p.next()
			a := p.parseExpr(3)
			p.expectOp(":")
			b := p.parseExpr(3)
			lhs = &SCond{lhs, a, b}
			continue
		}
		prec, ok := binPrec[op]
		if !ok || prec < minPrec {
			return lhs
		}
		p.next()
		var rhs SExpr
		if op == "==>" { // right assoc
			rhs = p.parseExpr(prec)
		} else {
			rhs = p.parseExpr(prec + 1)
		}
		lhs = &SBinary{op, lhs, rhs}
	}
}

func (p *sparser) parseQuant() SExpr {
	q := &SQuant{Forall: p.next().text == "forall"}
	// vars: a, b T, c U ::
	for {
		var names []string
		for {
			t := p.next()
			if t.kind != "ident" {
				panic(fmt.Errorf("expected variable name in quantifier in %q", p.src))
			}
			names = append(names, t.text)
			if p.isOp(",") {
				p.next()
				continue
			}
			break
		}
		ty := p.parseType()
		for _, n := range names {
			q.Vars = append(q.Vars, SVar{n, ty})
		}
		if p.isOp(",") {
			p.next()
			continue
		}
		break
	}
	p.expectOp("::")
	for p.isOp("{") {
		p.next()
		var trig []SExpr
		for {
			trig = append(trig, p.parseExpr(3))
			if p.isOp(",") {
				p.next()
				continue
			}
			break
		}
		p.expectOp("}")
		q.Triggers = append(q.Triggers, trig)
	}
	q.Body = p.parseExpr(0)
	return q
}

func (p *sparser) parseType() *STypeExpr {
	if p.isOp("*") {
		p.next()
		return &STypeExpr{Kind: "ptr", Elem: p.parseType()}
	}
	if p.isOp("[") {
		p.next()
		if p.peek().kind == "int" {
			n := p.next().text
			p.expectOp("]")
			return &STypeExpr{Kind: "goarray", Name: n, Elem: p.parseType()}
		}
		p.expectOp("]")
		return &STypeExpr{Kind: "slice", Elem: p.parseType()}
	}
	t := p.next()
	if t.kind != "ident" {
		panic(fmt.Errorf("expected type at %d in %q", t.pos, p.src))
	}
	if t.text == "map" || t.text == "array" {
		p.expectOp("[")
		k := p.parseType()
		p.expectOp("]")
		v := p.parseType()
		return &STypeExpr{Kind: t.text, Key: k, Elem: v}
	}
	if t.text == "func" {
		p.expectOp("(")
		ft := &STypeExpr{Kind: "func"}
		for !p.isOp(")") {
			ft.Args = append(ft.Args, p.parseType())
			if p.isOp(",") {
				p.next()
			}
		}
		p.expectOp(")")
		ft.Elem = p.parseType()
		return ft
	}
	if t.text == "set" {
		p.expectOp("[")
		k := p.parseType()
		p.expectOp("]")
		return &STypeExpr{Kind: "set", Elem: k}
	}
	name := t.text
	for p.isOp(".") || p.isOp("/") {
		// qualified: pkg.T or path/pkg.T
		op := p.next().text
		n := p.next()
		name += op + n.text
	}
	return &STypeExpr{Kind: "name", Name: name}
}

func (p *sparser) parseUnary() SExpr {
	t := p.peek()
	if t.kind == "op" {
		switch t.text {
		case "!", "-":
			p.next()
			return &SUnary{t.text, p.parseUnary()}
		case "*":
			p.next()
			return &SDeref{p.parseUnary()}
		}
	}
	return p.parsePostfix(p.parsePrimary())
}

func (p *sparser) parsePrimary() SExpr {
	t := p.next()
	switch t.kind {
	case "int":
		v, err := strconv.ParseInt(strings.ReplaceAll(t.text, "_", ""), 0, 64)
		if err != nil {
			panic(fmt.Errorf("bad int %q", t.text))
		}
		return &SInt{strconv.FormatInt(v, 10)}
	case "str":
		return &SStr{t.text}
	case "char":
		v, _ := strconv.Atoi(t.text)
		return &SChar{v}
	case "ident":
		switch t.text {
		case "true":
			return &SBool{true}
		case "false":
			return &SBool{false}
		case "nil":
			return &SNil{}
		case "old":
			p.expectOp("(")
			e := p.parseExpr(0)
			p.expectOp(")")
			return &SOld{e}
		case "istype", "astype", "box":
			p.expectOp("(")
			e := p.parseExpr(0)
			p.expectOp(",")
			ty := p.parseType()
			p.expectOp(")")
			return &SCall{&SIdent{t.text}, []SExpr{e, &SType{ty}}}
		case "mk":
			// mk(T, field values in declaration order)
			p.expectOp("(")
			ty := p.parseType()
			args := []SExpr{&SType{ty}}
			for p.isOp(",") {
				p.next()
				args = append(args, p.parseExpr(0))
			}
			p.expectOp(")")
			return &SCall{&SIdent{"mk"}, args}
		case "zero", "tid":
			p.expectOp("(")
			ty := p.parseType()
			p.expectOp(")")
			return &SCall{&SIdent{t.text}, []SExpr{&SType{ty}}}
		}
		return &SIdent{t.text}
	case "op":
		if t.text == "(" {
			e := p.parseExpr(0)
			p.expectOp(")")
			return e
		}
	}
	panic(fmt.Errorf("unexpected %q at %d in %q", t.text, t.pos, p.src))
}

func (p *sparser) parsePostfix(x SExpr) SExpr {
	for {
		switch {
		case p.isOp("."):
			p.next()
			n := p.next()
			if n.kind != "ident" {
				panic(fmt.Errorf("expected name after '.' in %q", p.src))
			}
			x = &SSel{x, n.text}
		case p.isOp("("):
			p.next()
			var args []SExpr
			for !p.isOp(")") {
				args = append(args, p.parseExpr(0))
				if p.isOp(",") {
					p.next()
				}
			}
			p.expectOp(")")
			x = &SCall{x, args}
		case p.isOp("["):
			p.next()
			var lo, hi SExpr
			if !p.isOp(":") {
				lo = p.parseExpr(0)
			}
			if p.isOp(":") {
				p.next()
				if !p.isOp("]") {
					hi = p.parseExpr(0)
				}
				p.expectOp("]")
				x = &SSlice{x, lo, hi}
			} else {
				p.expectOp("]")
				x = &SIndex{x, lo}
			}
		default:
			return x
		}
	}
}

// ---------- contract files ----------

type Clause struct {
	Kind  string // requires ensures invariant assert modifies ...
	Label string
	Text  string
	Expr  SExpr
	Line  int
}

type LoopSpec struct {
	N          int
	Invariants []*Clause
	Visited    string // ghost name of the visited set (map-range loops)
	Index      string // ghost name for hidden index of range loops
	Yields     []*Clause
	Exhausts   []*Clause
	Modifies   []string
	Ghosts     []LoopGhost
}

type LoopGhost struct {
	Name string
	Expr SExpr
	Text string
}

type CallAssert struct {
	Callee  string
	K       int    // ordinal among the calls of Callee (among those on matching lines if On != "")
	On      string // if non-empty: only calls whose source line contains this text; K == 0 means all of them
	Clauses []*Clause // assert
	Matched bool
}

type GhostFn struct {
	Name    string
	Params  []SVar
	Result  *STypeExpr
	Body    SExpr // nil: uninterpreted
	Text    string
	Opaque  bool
	File    string
	Line    int
}

type Contract struct {
	Key        string // e.g. "align", "(*Sizes).Sizeof", "MaximumLanguageVersion$1"
	PkgPath    string
	Extern     bool
	ExternSig  string
	Props      []string
	Requires   []*Clause
	Ensures    []*Clause
	Modifies   []string
	Reads      []string
	Writes     []string // slice parameters whose elements the callee may overwrite (out-parameters)
	Fills      []string // slice parameters b such that result == append(b, ...) written into b's spare capacity
	HasMod     bool
	Pure       bool
	Loops      map[int]*LoopSpec
	CallAsserts []*CallAssert
	ReturnAsserts map[int][]*Clause
	PanicsWhen []*Clause
	Always     []*Clause // checked after every call and at every return
	Uses       []string // lemma / axiom group names
	Abstract   []string // callees or statement kinds abstracted
	Counts     map[string]string // event name -> callee key
	Trusted    bool              // contract assumed, body not verified (listed)
	MayPanic   bool
	Params     []SVar // for externs: declared signature
	Results    []SVar
	File       string
	Line       int
	Raw        []string
	Inline     bool
	Opaque     bool
	SkipSafe   map[string]bool
	NoInline   bool
	// IfaceTyping: a non-nil value read from a field of (non-empty) interface type implements
	// that interface (Go's typing guarantee, stated as an assumption at every such read)
	IfaceTyping bool
	PureCalls  []string
	Sweep      bool // implicit contract of the zero-annotation safety sweep
}

type Axiom struct {
	Name  string
	Group string
	Text  string
	Expr  SExpr
	File  string
	Line  int
}

type Lemma struct {
	Name     string
	Params   []SVar
	Requires []*Clause
	Ensures  []*Clause
	Induct   string // variable name for induction (on Int, step -1)
	Triggers [][]SExpr
	Uses     []string
	Props    []string
	File     string
	Line     int
}

type ContractFile struct {
	Path      string
	PkgPath   string
	Contracts []*Contract
	Ghosts    []*GhostFn
	Axioms    []*Axiom
	Lemmas    []*Lemma
	Consts    map[string]string
	Immutable []string
	GhostFields []GhostField
	GhostVars   []SVar
}

// GhostField: specification-only field of a struct type (kept in the heap model like a real field).
type GhostField struct {
	TypeName string
	Name     string
	Type     *STypeExpr
}

var blockKeywords = map[string]bool{"ghostvar": true, "ghostfield": true, "immutable": true, "functype": true, "func": true, "extern": true, "ghost": true, "axiom": true, "lemma": true, "group": true, "const": true}
var clauseKeywords = map[string]bool{
	"always": true, "requires": true, "ensures": true, "modifies": true, "reads": true, "writes": true, "fills": true, "loop": true, "at": true, "panics_when": true,
	"prop": true, "pure": true, "uses": true, "abstract": true, "counts": true, "trusted": true, "may_panic": true,
	"induct": true, "trigger": true, "inline": true, "opaque": true, "nosafe": true, "noinline": true, "purecall": true, "ifacetyping": true,
}

// readContractFile parses the //@ lines of one file.
func readContractFile(path, pkgPath string) (*ContractFile, error) {
	data, err := os.ReadFile(path)
	if err != nil {
		return nil, err
	}
	cf := &ContractFile{Path: path, PkgPath: pkgPath, Consts: map[string]string{}}
	type rawLine struct {
		text string
		line int
	}
	// group into logical lines: a line whose first word is a keyword starts a new logical line
	var logical []rawLine
	for i, l := range strings.Split(string(data), "\n") {
		l = strings.TrimSpace(l)
		if !strings.HasPrefix(l, "//@") {
			continue
		}
		l = strings.TrimSpace(strings.TrimPrefix(l, "//@"))
		if l == "" {
			continue
		}
		// strip trailing "// comment" (only when preceded by two spaces)
		if k := strings.Index(l, "  // "); k >= 0 {
			l = strings.TrimSpace(l[:k])
		}
		first := l
		if k := strings.IndexAny(l, " \t"); k >= 0 {
			first = l[:k]
		}
		if blockKeywords[first] || clauseKeywords[first] {
			logical = append(logical, rawLine{l, i + 1})
		} else {
			if len(logical) == 0 {
				return nil, fmt.Errorf("%s:%d: continuation without a clause", path, i+1)
			}
			logical[len(logical)-1].text += " " + l
		}
	}
	var cur *Contract
	var curLemma *Lemma
	var curGroup string
	var curProps []string
	fail := func(line int, f string, a ...any) error {
		return fmt.Errorf("%s:%d: %s", path, line, fmt.Sprintf(f, a...))
	}
	for _, rl := range logical {
		kw, rest := rl.text, ""
		if k := strings.IndexAny(rl.text, " \t"); k >= 0 {
			kw, rest = rl.text[:k], strings.TrimSpace(rl.text[k:])
		}
		parseClause := func(kind string) (*Clause, error) {
			label := ""
			text := rest
			if strings.HasPrefix(text, "[") {
				k := strings.Index(text, "]")
				if k < 0 {
					return nil, fail(rl.line, "unterminated label")
				}
				label = text[1:k]
				text = strings.TrimSpace(text[k+1:])
			}
			e, err := parseSpecExpr(text)
			if err != nil {
				return nil, fail(rl.line, "%v", err)
			}
			return &Clause{Kind: kind, Label: label, Text: text, Expr: e, Line: rl.line}, nil
		}
		switch kw {
		case "ghostvar":
			// ghostvar name type : specification-only global variable (mutable, part of the heap model)
			ps, err := parseParams(rest)
			if err != nil || len(ps) != 1 {
				return nil, fail(rl.line, "ghostvar name type")
			}
			cf.GhostVars = append(cf.GhostVars, ps[0])
		case "ghostfield":
			// ghostfield Type.name type
			f := splitWords(rest, 2)
			if len(f) != 2 || !strings.Contains(f[0], ".") {
				return nil, fail(rl.line, "ghostfield Type.name type")
			}
			i := strings.LastIndex(f[0], ".")
			toks, err := lex(f[1])
			if err != nil {
				return nil, fail(rl.line, "%v", err)
			}
			tp := &sparser{toks: toks, src: f[1]}
			var ty *STypeExpr
			func() {
				defer func() {
					if r := recover(); r != nil {
						err = fmt.Errorf("%v", r)
					}
				}()
				ty = tp.parseType()
			}()
			if err != nil {
				return nil, fail(rl.line, "%v", err)
			}
			cf.GhostFields = append(cf.GhostFields, GhostField{TypeName: f[0][:i], Name: f[0][i+1:], Type: ty})
		case "immutable":
			for _, m := range strings.Split(rest, ",") {
				if m = strings.TrimSpace(m); m != "" {
					cf.Immutable = append(cf.Immutable, m)
				}
			}
		case "group":
			curGroup = rest
		case "const":
			// const NAME = value
			parts := strings.SplitN(rest, "=", 2)
			if len(parts) != 2 {
				return nil, fail(rl.line, "bad const")
			}
			cf.Consts[strings.TrimSpace(parts[0])] = strings.TrimSpace(parts[1])
		case "func", "extern", "functype":
			if kw == "functype" {
				rest = "type:" + rest
			}
			cur = &Contract{Key: rest, PkgPath: pkgPath, Extern: kw == "extern", Loops: map[int]*LoopSpec{}, Counts: map[string]string{}, File: path, Line: rl.line, SkipSafe: map[string]bool{}}
			curLemma = nil
			if kw == "extern" {
				// extern path/pkg.Func(x T, y U) (r R)   or  extern (*pkg.T).M(x T) R
				if err := parseExternSig(cur, rest); err != nil {
					return nil, fail(rl.line, "%v", err)
				}
			}
			cur.Props = append(cur.Props, curProps...)
			cf.Contracts = append(cf.Contracts, cur)
		case "ghost":
			g, err := parseGhost(rest)
			if err != nil {
				return nil, fail(rl.line, "%v", err)
			}
			g.File, g.Line = path, rl.line
			cf.Ghosts = append(cf.Ghosts, g)
		case "axiom":
			name := ""
			text := rest
			if strings.HasPrefix(text, "[") {
				k := strings.Index(text, "]")
				name = text[1:k]
				text = strings.TrimSpace(text[k+1:])
			}
			e, err := parseSpecExpr(text)
			if err != nil {
				return nil, fail(rl.line, "%v", err)
			}
			cf.Axioms = append(cf.Axioms, &Axiom{Name: name, Group: curGroup, Text: text, Expr: e, File: path, Line: rl.line})
		case "lemma":
			l, err := parseLemmaHead(rest)
			if err != nil {
				return nil, fail(rl.line, "%v", err)
			}
			l.File, l.Line = path, rl.line
			l.Props = append(l.Props, curProps...)
			cf.Lemmas = append(cf.Lemmas, l)
			curLemma = l
			cur = nil
		case "prop":
			ps := strings.FieldsFunc(rest, func(r rune) bool { return r == ',' || r == ' ' })
			// always file-level: applies to the blocks that follow
			curProps = ps
			cur, curLemma = nil, nil
		case "always":
			c, err := parseClause("always")
			if err != nil {
				return nil, err
			}
			if cur == nil {
				return nil, fail(rl.line, "always outside a block")
			}
			cur.Always = append(cur.Always, c)
		case "requires", "ensures", "panics_when":
			c, err := parseClause(kw)
			if err != nil {
				return nil, err
			}
			if curLemma != nil {
				if kw == "requires" {
					curLemma.Requires = append(curLemma.Requires, c)
				} else {
					curLemma.Ensures = append(curLemma.Ensures, c)
				}
				continue
			}
			if cur == nil {
				return nil, fail(rl.line, "%s outside a block", kw)
			}
			switch kw {
			case "requires":
				cur.Requires = append(cur.Requires, c)
			case "ensures":
				cur.Ensures = append(cur.Ensures, c)
			default:
				cur.PanicsWhen = append(cur.PanicsWhen, c)
			}
		case "induct":
			if curLemma == nil {
				return nil, fail(rl.line, "induct outside lemma")
			}
			curLemma.Induct = rest
		case "trigger":
			if curLemma == nil {
				return nil, fail(rl.line, "trigger outside lemma")
			}
			// trigger e1, e2   (one multi-pattern per clause)
			e, err := parseSpecExpr("f(" + rest + ")")
			if err != nil {
				return nil, fail(rl.line, "%v", err)
			}
			curLemma.Triggers = append(curLemma.Triggers, e.(*SCall).Args)
		case "modifies":
			if cur == nil {
				return nil, fail(rl.line, "modifies outside a block")
			}
			cur.HasMod = true
			for _, m := range strings.Split(rest, ",") {
				m = strings.TrimSpace(m)
				if m != "" && m != "nothing" {
					cur.Modifies = append(cur.Modifies, m)
				}
			}
		case "writes":
			for _, m := range strings.Split(rest, ",") {
				if m = strings.TrimSpace(m); m != "" {
					cur.Writes = append(cur.Writes, m)
				}
			}
		case "fills":
			for _, m := range strings.Split(rest, ",") {
				if m = strings.TrimSpace(m); m != "" {
					cur.Fills = append(cur.Fills, m)
				}
			}
		case "reads":
			for _, m := range strings.Split(rest, ",") {
				if m = strings.TrimSpace(m); m != "" {
					cur.Reads = append(cur.Reads, m)
				}
			}
		case "pure":
			cur.Pure = true
		case "trusted":
			cur.Trusted = true
		case "inline":
			cur.Inline = true
		case "opaque":
			cur.Opaque = true
		case "may_panic":
			cur.MayPanic = true
		case "purecall":
			// purecall <expr>: calls of this function value (written exactly like this) have no
			// side effects and their result is apply(<expr>, args) -- a listed assumption
			cur.PureCalls = append(cur.PureCalls, strings.TrimSpace(rest))
		case "noinline":
			// callees without a contract are never inlined: they are unknown calls
			cur.NoInline = true
		case "ifacetyping":
			cur.IfaceTyping = true
		case "nosafe":
			for _, m := range strings.Fields(rest) {
				cur.SkipSafe[m] = true
			}
		case "uses":
			us := strings.FieldsFunc(rest, func(r rune) bool { return r == ',' || r == ' ' })
			if curLemma != nil {
				curLemma.Uses = append(curLemma.Uses, us...)
			} else if cur != nil {
				cur.Uses = append(cur.Uses, us...)
			}
		case "abstract":
			cur.Abstract = append(cur.Abstract, strings.FieldsFunc(rest, func(r rune) bool { return r == ',' || r == ' ' })...)
		case "counts":
			// counts <name> calls <callee>
			f := strings.Fields(rest)
			if len(f) != 3 || f[1] != "calls" {
				return nil, fail(rl.line, "counts <name> calls <callee>")
			}
			cur.Counts[f[0]] = f[2]
		case "loop":
			// loop N invariant [label] expr | loop N visited name | loop N index name | loop N modifies a, b
			f := splitWords(rest, 3)
			if len(f) < 3 {
				return nil, fail(rl.line, "bad loop clause")
			}
			n, err := strconv.Atoi(f[0])
			if err != nil {
				return nil, fail(rl.line, "bad loop ordinal %q", f[0])
			}
			ls := cur.Loops[n]
			if ls == nil {
				ls = &LoopSpec{N: n}
				cur.Loops[n] = ls
			}
			rest = strings.TrimSpace(f[2])
			switch f[1] {
			case "invariant":
				c, err := parseClause("invariant")
				if err != nil {
					return nil, err
				}
				ls.Invariants = append(ls.Invariants, c)
			case "yields":
				c, err := parseClause("yields")
				if err != nil {
					return nil, err
				}
				ls.Yields = append(ls.Yields, c)
			case "exhausts":
				// loop N exhausts expr: assumed when a range-over-func loop ends normally (the
				// iterator has yielded its whole sequence) -- a listed assumption
				c, err := parseClause("exhausts")
				if err != nil {
					return nil, err
				}
				ls.Exhausts = append(ls.Exhausts, c)
			case "ghost":
				// loop N ghost name = expr   (evaluated once at loop entry)
				parts := strings.SplitN(rest, "=", 2)
				if len(parts) != 2 {
					return nil, fail(rl.line, "loop N ghost name = expr")
				}
				e, err := parseSpecExpr(strings.TrimSpace(parts[1]))
				if err != nil {
					return nil, fail(rl.line, "%v", err)
				}
				ls.Ghosts = append(ls.Ghosts, LoopGhost{Name: strings.TrimSpace(parts[0]), Expr: e, Text: rest})
			case "visited":
				ls.Visited = rest
			case "index":
				ls.Index = rest
			case "modifies":
				for _, m := range strings.Split(rest, ",") {
					ls.Modifies = append(ls.Modifies, strings.TrimSpace(m))
				}
			default:
				return nil, fail(rl.line, "bad loop clause %q", f[1])
			}
		case "at":
			// at call <callee>#k assert [label] expr
			f := splitWords(rest, 4)
			if len(f) == 4 && f[0] == "return" && f[2] == "assert" {
				k, err := strconv.Atoi(strings.TrimPrefix(f[1], "#"))
				if err != nil {
					return nil, fail(rl.line, "bad return ordinal")
				}
				rest = f[3]
				c, err := parseClause("assert")
				if err != nil {
					return nil, err
				}
				if cur.ReturnAsserts == nil {
					cur.ReturnAsserts = map[int][]*Clause{}
				}
				cur.ReturnAsserts[k] = append(cur.ReturnAsserts[k], c)
				continue
			}
			on := ""
			if len(f) == 4 && f[0] == "call" && f[2] == "on" {
				// at call <callee> on "text of the source line" assert [label] expr
				q, qerr := strconv.QuotedPrefix(strings.TrimSpace(f[3]))
				if qerr != nil {
					return nil, fail(rl.line, "at call <callee> on \"text\" assert <expr>: bad quoted text")
				}
				on, _ = strconv.Unquote(q)
				after := strings.TrimSpace(strings.TrimPrefix(strings.TrimSpace(f[3]), q))
				g := splitWords(after, 2)
				if len(g) != 2 || g[0] != "assert" {
					return nil, fail(rl.line, "at call <callee> on \"text\" assert <expr>")
				}
				f = []string{"call", f[1], "assert", g[1]}
			}
			if len(f) < 4 || f[0] != "call" || f[2] != "assert" {
				return nil, fail(rl.line, "at call <callee>#k assert <expr> | at call <callee> on \"text\" assert <expr> | at return #k assert <expr>")
			}
			callee, k := f[1], 1
			if on != "" {
				k = 0
			}
			if i := strings.LastIndex(callee, "#"); i >= 0 {
				k, err = strconv.Atoi(callee[i+1:])
				if err != nil {
					return nil, fail(rl.line, "bad call ordinal")
				}
				callee = callee[:i]
			}
			rest = f[3]
			c, err := parseClause("assert")
			if err != nil {
				return nil, err
			}
			var ca *CallAssert
			for _, x := range cur.CallAsserts {
				if x.Callee == callee && x.K == k && x.On == on {
					ca = x
				}
			}
			if ca == nil {
				ca = &CallAssert{Callee: callee, K: k, On: on}
				cur.CallAsserts = append(cur.CallAsserts, ca)
			}
			ca.Clauses = append(ca.Clauses, c)
		default:
			return nil, fail(rl.line, "unknown keyword %q", kw)
		}
	}
	return cf, nil
}

// parseParams parses "x, y T, z U" into SVars.
func parseParams(src string) ([]SVar, error) {
	src = strings.TrimSpace(src)
	if src == "" {
		return nil, nil
	}
	toks, err := lex(src)
	if err != nil {
		return nil, err
	}
	p := &sparser{toks: toks, src: src}
	var out []SVar
	var perr error
	func() {
		defer func() {
			if r := recover(); r != nil {
				perr = fmt.Errorf("%v", r)
			}
		}()
		for p.peek().kind != "eof" {
			var names []string
			for {
				t := p.next()
				names = append(names, t.text)
				if p.isOp(",") {
					p.next()
					continue
				}
				break
			}
			ty := p.parseType()
			for _, n := range names {
				out = append(out, SVar{n, ty})
			}
			if p.isOp(",") {
				p.next()
			}
		}
	}()
	return out, perr
}

// splitSig splits "name(params) result-or-(results) [= body]".
func splitSig(s string) (name, params, result, body string, err error) {
	i := strings.Index(s, "(")
	if i < 0 {
		return "", "", "", "", fmt.Errorf("missing '(' in %q", s)
	}
	// method form "(*pkg.T).M(" : find the '(' that follows the name
	if i == 0 {
		j := strings.Index(s, ").")
		if j < 0 {
			return "", "", "", "", fmt.Errorf("bad method signature %q", s)
		}
		k := strings.Index(s[j:], "(")
		if k < 0 {
			return "", "", "", "", fmt.Errorf("bad method signature %q", s)
		}
		i = j + k
	}
	name = strings.TrimSpace(s[:i])
	depth := 0
	j := i
	for ; j < len(s); j++ {
		if s[j] == '(' {
			depth++
		} else if s[j] == ')' {
			depth--
			if depth == 0 {
				break
			}
		}
	}
	if j >= len(s) {
		return "", "", "", "", fmt.Errorf("unbalanced parens in %q", s)
	}
	params = s[i+1 : j]
	rest := strings.TrimSpace(s[j+1:])
	if k := strings.Index(rest, " = "); k >= 0 {
		body = strings.TrimSpace(rest[k+3:])
		rest = strings.TrimSpace(rest[:k])
	} else if strings.HasPrefix(rest, "= ") {
		body = strings.TrimSpace(rest[2:])
		rest = ""
	}
	result = rest
	return
}

func parseGhost(rest string) (*GhostFn, error) {
	name, params, result, body, err := splitSig(rest)
	if err != nil {
		return nil, err
	}
	g := &GhostFn{Name: name, Text: rest}
	if g.Params, err = parseParams(params); err != nil {
		return nil, err
	}
	if result == "" {
		return nil, fmt.Errorf("ghost %s: missing result type", name)
	}
	toks, err := lex(result)
	if err != nil {
		return nil, err
	}
	p := &sparser{toks: toks, src: result}
	func() {
		defer func() {
			if r := recover(); r != nil {
				err = fmt.Errorf("%v", r)
			}
		}()
		g.Result = p.parseType()
	}()
	if err != nil {
		return nil, err
	}
	if body != "" {
		if g.Body, err = parseSpecExpr(body); err != nil {
			return nil, err
		}
	}
	return g, nil
}

func parseLemmaHead(rest string) (*Lemma, error) {
	name, params, _, _, err := splitSig(rest)
	if err != nil {
		return nil, err
	}
	l := &Lemma{Name: name}
	if l.Params, err = parseParams(params); err != nil {
		return nil, err
	}
	return l, nil
}

func parseExternSig(c *Contract, rest string) error {
	if !strings.Contains(rest, "(") {
		c.Key = rest
		return nil
	}
	name, params, result, _, err := splitSig(rest)
	if err != nil {
		return err
	}
	c.Key = name
	c.ExternSig = rest
	if c.Params, err = parseParams(params); err != nil {
		return err
	}
	result = strings.TrimSpace(result)
	if result != "" {
		if strings.HasPrefix(result, "(") {
			if c.Results, err = parseParams(strings.TrimSuffix(strings.TrimPrefix(result, "("), ")")); err != nil {
				return err
			}
		} else {
			toks, err := lex(result)
			if err != nil {
				return err
			}
			p := &sparser{toks: toks, src: result}
			var ty *STypeExpr
			func() {
				defer func() {
					if r := recover(); r != nil {
						err = fmt.Errorf("%v", r)
					}
				}()
				ty = p.parseType()
			}()
			if err != nil {
				return err
			}
			c.Results = []SVar{{"result", ty}}
		}
	}
	return nil
}

// splitConj splits top-level && into conjuncts.
func splitConj(e SExpr) []SExpr {
	if b, ok := e.(*SBinary); ok && b.Op == "&&" {
		return append(splitConj(b.X), splitConj(b.Y)...)
	}
	return []SExpr{e}
}

// splitWords splits s into at most n whitespace-separated words; the last one keeps the rest.
func splitWords(s string, n int) []string {
	var out []string
	s = strings.TrimSpace(s)
	for len(out) < n-1 {
		i := strings.IndexAny(s, " \t")
		if i < 0 {
			break
		}
		out = append(out, s[:i])
		s = strings.TrimSpace(s[i:])
	}
	if s != "" {
		out = append(out, s)
	}
	return out
}
