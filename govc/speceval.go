package main

// Translation of contract-language expressions into SMT terms.

import (
	"fmt"
	"go/token"
	"go/types"
	"strconv"
	"strings"

	"golang.org/x/tools/go/packages"
)

type SpecEnv struct {
	u      *Unit
	st     *State // state in which program variables / heap are read
	old    *State // state for old(...)
	names  map[string]Val
	bound  map[string]Val
	scope  *types.Scope // for resolving program variables by name (may be nil)
	pos    token.Pos
	home   *packages.Package // package whose contract file the expression comes from
	results []Val
	inOld  bool
	loopPre *State // state at entry of the innermost loop (for loopentry(...))
	oldNames map[string]Val // names that denote a different value inside old(...)
}

type specErr struct{ msg string }

func (env *SpecEnv) fail(f string, a ...any) {
	panic(specErr{fmt.Sprintf(f, a...)})
}

func (env *SpecEnv) with(name string, v Val) *SpecEnv {
	n := *env
	n.bound = map[string]Val{}
	for k, x := range env.bound {
		n.bound[k] = x
	}
	n.bound[name] = v
	return &n
}

// evalBool evaluates a spec expression expected to be a formula.
func (env *SpecEnv) evalBool(e SExpr) string {
	v := env.eval(e)
	if v.So != "Bool" {
		env.fail("expected a formula, got sort %s in %s", v.So, e.String())
	}
	return v.T
}

var intT = types.Typ[types.Int]
var boolT = types.Typ[types.Bool]
var stringT = types.Typ[types.String]

func (env *SpecEnv) eval(e SExpr) Val {
	u := env.u
	switch x := e.(type) {
	case *SInt:
		return Val{T: sIntStr(x.V), Ty: intT, So: "Int"}
	case *SStr:
		return Val{T: sStr(x.V), Ty: stringT, So: "String"}
	case *SChar:
		return Val{T: strconv.Itoa(x.V), Ty: intT, So: "Int"}
	case *SBool:
		return Val{T: strconv.FormatBool(x.V), Ty: boolT, So: "Bool"}
	case *SNil:
		return Val{T: "0", Ty: types.Typ[types.UntypedNil], So: "Int"}
	case *SIdent:
		return env.ident(x.Name)
	case *SOld:
		if env.old == nil {
			env.fail("old() not available here: %s", e.String())
		}
		n := *env
		n.st = env.old
		n.inOld = true
		if len(env.oldNames) > 0 {
			n.names = map[string]Val{}
			for k, v := range env.names {
				n.names[k] = v
			}
			for k, v := range env.oldNames {
				n.names[k] = v
			}
		}
		return n.eval(x.X)
	case *SUnary:
		v := env.eval(x.X)
		if x.Op == "!" {
			return Val{T: sNot(v.T), Ty: boolT, So: "Bool"}
		}
		return Val{T: app("-", v.T), Ty: v.Ty, So: "Int"}
	case *SDeref:
		p := env.eval(x.X)
		u.inSpec++
		defer func() { u.inSpec-- }()
		return u.deref(env.stateForRead(), p, token.NoPos)
	case *SCond:
		c := env.evalBool(x.C)
		a := env.eval(x.A)
		b := env.eval(x.B)
		a, b = env.unify(a, b)
		return Val{T: sIte(c, a.T, b.T), Ty: a.Ty, So: a.So}
	case *SBinary:
		return env.binary(x)
	case *SQuant:
		return env.quant(x)
	case *SSel:
		return env.sel(x)
	case *SIndex:
		return env.index(x)
	case *SSlice:
		return env.slice(x)
	case *SCall:
		return env.call(x)
	}
	env.fail("cannot translate %T", e)
	return Val{}
}

// stateForRead returns a state whose heap can be read without emitting obligations.
func (env *SpecEnv) stateForRead() *State { return env.st }

func (env *SpecEnv) unify(a, b Val) (Val, Val) {
	if a.Ty != nil && isUntypedNil(a.Ty) && b.Ty != nil {
		a = env.u.convert(a, b.Ty)
	}
	if b.Ty != nil && isUntypedNil(b.Ty) && a.Ty != nil {
		b = env.u.convert(b, a.Ty)
	}
	return a, b
}

func (env *SpecEnv) ident(name string) Val {
	u := env.u
	if v, ok := env.bound[name]; ok {
		return v
	}
	if v, ok := env.names[name]; ok {
		return v
	}
	switch name {
	case "result":
		if len(env.results) >= 1 {
			return env.results[0]
		}
		env.fail("no result here")
	}
	if strings.HasPrefix(name, "result") {
		if i, err := strconv.Atoi(name[6:]); err == nil && i < len(env.results) {
			return env.results[i]
		}
	}
	// ghost state
	if v, ok := env.st.ghost[name]; ok {
		return v
	}
	// program variable by scope
	if env.scope != nil {
		if _, obj := env.scope.LookupParent(name, env.pos); obj != nil {
			switch o := obj.(type) {
			case *types.Var:
				if v, ok := env.st.vars[o]; ok {
					return v
				}
				if o.Pkg() != nil && o.Parent() == o.Pkg().Scope() {
					return u.readGlobal(env.st, o)
				}
				env.fail("variable %s is not bound at this point", name)
			case *types.Const:
				return u.constVal(o.Val(), o.Type())
			case *types.Nil:
				return Val{T: "0", Ty: types.Typ[types.UntypedNil], So: "Int"}
			}
		}
	}
	// contract-file constant
	if env.home != nil {
		if cf := u.eng.cfiles[env.home.PkgPath]; cf != nil {
			if c, ok := cf.Consts[name]; ok {
				e, err := parseSpecExpr(c)
				if err != nil {
					env.fail("const %s: %v", name, err)
				}
				return env.eval(e)
			}
		}
		// package-level object of the home package
		if obj := env.home.Types.Scope().Lookup(name); obj != nil {
			switch o := obj.(type) {
			case *types.Const:
				return u.constVal(o.Val(), o.Type())
			case *types.Var:
				return u.readGlobal(env.st, o)
			}
		}
		if gv, ok := u.eng.ghostVars[env.home.PkgPath+"."+name]; ok {
			ty, so := u.resolveType(env.home, gv.T)
			return Val{T: u.heapGet(env.st, "GV_"+mangle(lastSeg(env.home.PkgPath))+"_"+mangle(name), so), Ty: ty, So: so}
		}
		// zero-ary ghost
		if g := u.eng.ghosts[env.home.PkgPath+"."+name]; g != nil && len(g.Params) == 0 {
			return env.ghostCall(g, nil)
		}
	}
	env.fail("unknown identifier %q", name)
	return Val{}
}

func (env *SpecEnv) binary(x *SBinary) Val {
	u := env.u
	switch x.Op {
	case "&&":
		return Val{T: sAnd(env.evalBool(x.X), env.evalBool(x.Y)), Ty: boolT, So: "Bool"}
	case "||":
		return Val{T: sOr(env.evalBool(x.X), env.evalBool(x.Y)), Ty: boolT, So: "Bool"}
	case "==>":
		return Val{T: sImp(env.evalBool(x.X), env.evalBool(x.Y)), Ty: boolT, So: "Bool"}
	case "<==>":
		return Val{T: sEq(env.evalBool(x.X), env.evalBool(x.Y)), Ty: boolT, So: "Bool"}
	case "in":
		k := env.eval(x.X)
		c := env.eval(x.Y)
		return Val{T: env.member(k, c), Ty: boolT, So: "Bool"}
	}
	a := env.eval(x.X)
	b := env.eval(x.Y)
	switch x.Op {
	case "==", "!=":
		var t string
		if (a.Ty != nil && isUntypedNil(a.Ty)) || (b.Ty != nil && isUntypedNil(b.Ty)) || (a.Ty != nil && b.Ty != nil && isInterface(a.Ty) != isInterface(b.Ty)) {
			t = u.equal(env.st, a, b, token.NoPos)
		} else {
			a, b = env.unify(a, b)
			if a.So != b.So {
				env.fail("comparing different sorts %s and %s in %s", a.So, b.So, x.String())
			}
			t = sEq(a.T, b.T)
		}
		if x.Op == "!=" {
			t = sNot(t)
		}
		return Val{T: t, Ty: boolT, So: "Bool"}
	case "<", "<=", ">", ">=":
		if a.So == "String" {
			switch x.Op {
			case "<":
				return Val{T: app("str.<", a.T, b.T), Ty: boolT, So: "Bool"}
			case "<=":
				return Val{T: app("str.<=", a.T, b.T), Ty: boolT, So: "Bool"}
			case ">":
				return Val{T: app("str.<", b.T, a.T), Ty: boolT, So: "Bool"}
			default:
				return Val{T: app("str.<=", b.T, a.T), Ty: boolT, So: "Bool"}
			}
		}
		if a.So != "Int" || b.So != "Int" {
			env.fail("ordering on sort %s in %s", a.So, x.String())
		}
		return Val{T: app(x.Op, a.T, b.T), Ty: boolT, So: "Bool"}
	case "+":
		if a.So == "String" {
			return Val{T: app("str.++", a.T, b.T), Ty: a.Ty, So: "String"}
		}
		return Val{T: app("+", a.T, b.T), Ty: a.Ty, So: "Int"}
	case "-":
		return Val{T: app("-", a.T, b.T), Ty: a.Ty, So: "Int"}
	case "*":
		return Val{T: app("*", a.T, b.T), Ty: a.Ty, So: "Int"}
	case "/":
		return Val{T: app("godiv", a.T, b.T), Ty: a.Ty, So: "Int"}
	case "%":
		return Val{T: app("gomod", a.T, b.T), Ty: a.Ty, So: "Int"}
	case "<<":
		if isLit(b.T) {
			n, _ := strconv.Atoi(b.T)
			if n < 63 {
				if isLit(a.T) {
					av, _ := strconv.ParseInt(a.T, 10, 64)
					return Val{T: strconv.FormatInt(av<<uint(n), 10), Ty: a.Ty, So: "Int"}
				}
				return Val{T: app("*", a.T, strconv.FormatInt(1<<uint(n), 10)), Ty: a.Ty, So: "Int"}
			}
		}
		u.d.declarePow2()
		if a.T == "1" {
			return Val{T: app("pow2", b.T), Ty: a.Ty, So: "Int"}
		}
		return Val{T: app("*", a.T, app("pow2", b.T)), Ty: a.Ty, So: "Int"}
	case ">>":
		u.d.declarePow2()
		return Val{T: app("div", a.T, app("pow2", b.T)), Ty: a.Ty, So: "Int"}
	case "&", "|", "^", "&^":
		u.declareBitops()
		name := map[string]string{"&": "bitand", "|": "bitor", "^": "bitxor", "&^": "bitandnot"}[x.Op]
		return Val{T: app(name, pow2Lit(a.T), pow2Lit(b.T)), Ty: a.Ty, So: "Int"}
	}
	env.fail("operator %s", x.Op)
	return Val{}
}

// member: k in c for maps, sets, slices.
func (env *SpecEnv) member(k, c Val) string {
	u := env.u
	if c.Ty != nil {
		switch ct := c.Ty.Underlying().(type) {
		case *types.Map:
			k = u.convert(k, ct.Key())
			return app("select", app("mdom_"+c.So, c.T), k.T)
		case *types.Slice:
			k = u.convert(k, ct.Elem())
			i := u.fresh("mi", "Int")
			_ = i
			// exists i :: 0 <= i < len && c[i] == k
			bv := fmt.Sprintf("mi!%d", u.nfresh)
			_, _, ln, _ := u.sliceParts(c)
			return fmt.Sprintf("(exists ((%s Int)) (and (<= 0 %s) (< %s %s) (= %s %s)))", bv, bv, bv, ln, u.sliceAt(c, bv), k.T)
		}
	}
	if strings.HasPrefix(c.So, "(Array ") && strings.HasSuffix(c.So, " Bool)") {
		return app("select", c.T, k.T)
	}
	env.fail("'in' on sort %s", c.So)
	return ""
}

func (env *SpecEnv) quant(q *SQuant) Val {
	u := env.u
	n := *env
	n.bound = map[string]Val{}
	for k, v := range env.bound {
		n.bound[k] = v
	}
	var decls []string
	var guards []string
	for _, v := range q.Vars {
		ty, so := u.resolveType(env.home, v.T)
		u.nfresh++
		bn := fmt.Sprintf("%s!%d", v.Name, u.nfresh)
		val := Val{T: bn, Ty: ty, So: so}
		n.bound[v.Name] = val
		decls = append(decls, fmt.Sprintf("(%s %s)", bn, so))
		if ty != nil {
			if inv := u.lemmaGuard(val); inv != "true" {
				guards = append(guards, inv)
			}
		}
	}
	body := n.evalBool(q.Body)
	if len(guards) > 0 {
		if q.Forall {
			body = sImp(sAnd(guards...), body)
		} else {
			body = sAnd(append(guards, body)...)
		}
	}
	var pats []string
	for _, tr := range q.Triggers {
		var ts []string
		for _, t := range tr {
			ts = append(ts, n.eval(t).T)
		}
		pats = append(pats, ":pattern ("+strings.Join(ts, " ")+")")
	}
	kw := "exists"
	if q.Forall {
		kw = "forall"
	}
	if len(pats) > 0 {
		body = "(! " + body + " " + strings.Join(pats, " ") + ")"
	}
	return Val{T: fmt.Sprintf("(%s (%s) %s)", kw, strings.Join(decls, " "), body), Ty: boolT, So: "Bool"}
}

func (env *SpecEnv) sel(x *SSel) Val {
	u := env.u
	// package-qualified name?
	if id, ok := x.X.(*SIdent); ok {
		if _, isVar := env.lookupValue(id.Name); !isVar {
			if p := env.importedPkg(id.Name); p != nil {
				if gv, ok := u.eng.ghostVars[p.Path()+"."+x.Name]; ok {
					ty, so := u.resolveType(u.eng.pkgs[p.Path()], gv.T)
					return Val{T: u.heapGet(env.st, "GV_"+mangle(lastSeg(p.Path()))+"_"+mangle(x.Name), so), Ty: ty, So: so}
				}
				obj := p.Scope().Lookup(x.Name)
				switch o := obj.(type) {
				case *types.Const:
					return u.constVal(o.Val(), o.Type())
				case *types.Var:
					return u.readGlobal(env.st, o)
				case *types.Func:
					pk, key := funcKey(o)
					n := "fn_" + mangle(pk) + "_" + mangle(key)
					u.d.constant(n, "Int")
					u.d.axiom("fnnonnil."+n, app(">", n, "0"))
					return Val{T: n, Ty: o.Type(), So: "Int"}
				}
				env.fail("%s.%s is not a constant or variable", id.Name, x.Name)
			}
		}
	}
	base := env.eval(x.X)
	if base.Ty == nil {
		env.fail("selector .%s on ghost value %s", x.Name, x.X.String())
	}
	obj, path, _ := types.LookupFieldOrMethod(base.Ty, true, env.homeTypes(), x.Name)
	if f, ok := obj.(*types.Var); ok && f.IsField() {
		return u.readPathNoCheck(env.st, base, path)
	}
	if key, sort, ty, ok := u.ghostFieldKey(base.Ty, x.Name); ok {
		_, vs := arraySorts(sort)
		return Val{T: app("select", u.heapGet(env.st, key, sort), base.T), Ty: ty, So: vs}
	}
	env.fail("no field %s in %v", x.Name, base.Ty)
	return Val{}
}

func (env *SpecEnv) homeTypes() *types.Package {
	if env.home != nil {
		return env.home.Types
	}
	return env.u.pkg.Types
}

// readPathNoCheck is readPath without nil-dereference obligations (specifications are
// total: reading through nil yields an unspecified value).
func (u *Unit) readPathNoCheck(st *State, base Val, path []int) Val {
	cur := base
	for _, i := range path {
		s := structOf(cur.Ty)
		f := s.Field(i)
		if pt, ok := isPointer(cur.Ty); ok {
			so := u.sortOf(pt.Elem())
			fs := u.sortOf(f.Type())
			h := u.heapGet(st, u.heapKeyField(so, f.Name()), "(Array Int "+fs+")")
			cur = Val{T: app("select", h, cur.T), Ty: f.Type(), So: fs}
		} else {
			cur = Val{T: u.fieldOf(cur, f.Name()), Ty: f.Type(), So: u.sortOf(f.Type())}
		}
	}
	return cur
}

func (env *SpecEnv) lookupValue(name string) (Val, bool) {
	if v, ok := env.bound[name]; ok {
		return v, true
	}
	if v, ok := env.names[name]; ok {
		return v, true
	}
	if env.scope != nil {
		if _, obj := env.scope.LookupParent(name, env.pos); obj != nil {
			if _, ok := obj.(*types.Var); ok {
				return Val{}, true
			}
		}
	}
	return Val{}, false
}

func (env *SpecEnv) importedPkg(name string) *types.Package {
	home := env.home
	if home == nil {
		home = env.u.pkg
	}
	// the name as the package's files see it: the import alias if there is one, the imported
	// package's own name otherwise (two imports may share a package name when one is aliased)
	for _, f := range home.Syntax {
		for _, is := range f.Imports {
			path, _ := strconv.Unquote(is.Path.Value)
			for _, imp := range home.Types.Imports() {
				if imp.Path() != path {
					continue
				}
				if (is.Name != nil && is.Name.Name == name) || (is.Name == nil && imp.Name() == name) {
					return imp
				}
			}
		}
	}
	for _, imp := range home.Types.Imports() {
		if imp.Name() == name {
			return imp
		}
	}
	if name == home.Types.Name() {
		return home.Types
	}
	// any loaded package with that name
	for _, p := range env.u.eng.pkgs {
		if p.Types != nil && p.Types.Name() == name {
			return p.Types
		}
	}
	return nil
}

func (env *SpecEnv) index(x *SIndex) Val {
	u := env.u
	base := env.eval(x.X)
	idx := env.eval(x.I)
	if base.Ty != nil {
		switch bt := base.Ty.Underlying().(type) {
		case *types.Slice:
			return Val{T: u.sliceAt(base, idx.T), Ty: bt.Elem(), So: u.sortOf(bt.Elem())}
		case *types.Array:
			return Val{T: app("select", base.T, idx.T), Ty: bt.Elem(), So: u.sortOf(bt.Elem())}
		case *types.Map:
			// In specifications m[k] is the stored value; it is unspecified for absent keys
			// (guard with `k in m`). This keeps quantifier triggers free of if-then-else.
			idx = u.convert(idx, bt.Key())
			return Val{T: app("select", app("mval_"+base.So, base.T), idx.T), Ty: bt.Elem(), So: u.sortOf(bt.Elem())}
		case *types.Basic:
			if isStringType(base.Ty) {
				return Val{T: app("str.to_code", app("str.at", base.T, idx.T)), Ty: types.Typ[types.Byte], So: "Int"}
			}
		}
	}
	if strings.HasPrefix(base.So, "(Array ") {
		_, vs := arraySorts(base.So)
		return Val{T: app("select", base.T, idx.T), Ty: nil, So: vs}
	}
	env.fail("index on sort %s in %s", base.So, x.String())
	return Val{}
}

// arraySorts splits "(Array K V)".
func arraySorts(s string) (k, v string) {
	inner := s[len("(Array ") : len(s)-1]
	parts := splitArgs(inner)
	if len(parts) == 2 {
		return parts[0], parts[1]
	}
	return "Int", "Int"
}

func (env *SpecEnv) slice(x *SSlice) Val {
	u := env.u
	base := env.eval(x.X)
	lo := "0"
	if x.Lo != nil {
		lo = env.eval(x.Lo).T
	}
	if base.So == "String" {
		hi := app("str.len", base.T)
		if x.Hi != nil {
			hi = env.eval(x.Hi).T
		}
		return Val{T: app("str.substr", base.T, lo, sSub(hi, lo)), Ty: base.Ty, So: "String"}
	}
	if base.Ty != nil {
		if _, ok := base.Ty.Underlying().(*types.Slice); ok {
			_, _, ln, _ := u.sliceParts(base)
			hi := ln
			if x.Hi != nil {
				hi = env.eval(x.Hi).T
			}
			return Val{T: u.subSlice(base, lo, hi), Ty: base.Ty, So: base.So}
		}
	}
	env.fail("slice expression on sort %s", base.So)
	return Val{}
}

func (env *SpecEnv) call(x *SCall) Val {
	u := env.u
	// builtins of the contract language
	if id, ok := x.Fun.(*SIdent); ok {
		switch id.Name {
		case "len":
			v := env.eval(x.Args[0])
			return Val{T: u.lenOf(v, env), Ty: intT, So: "Int"}
		case "istype":
			v := env.eval(x.Args[0])
			ty, _ := u.resolveType(env.home, x.Args[1].(*SType).T)
			if isInterface(ty) {
				// istype(v, I): v is a non-nil value whose dynamic type implements I
				return Val{T: sAnd(sNot(sEq(v.T, "0")), app(u.sc.implementsFn(ty), app("dyntype", v.T))), Ty: boolT, So: "Bool"}
			}
			return Val{T: sEq(app("dyntype", v.T), strconv.Itoa(u.sc.tid(ty))), Ty: boolT, So: "Bool"}
		case "astype":
			v := env.eval(x.Args[0])
			ty, so := u.resolveType(env.home, x.Args[1].(*SType).T)
			_, unbox, _ := u.sc.boxFns(ty)
			return Val{T: app(unbox, v.T), Ty: ty, So: so}
		case "box":
			v := env.eval(x.Args[0])
			ty, _ := u.resolveType(env.home, x.Args[1].(*SType).T)
			v.Ty = ty
			box, _, _ := u.sc.boxFns(ty)
			return Val{T: app(box, v.T), Ty: types.NewInterfaceType(nil, nil), So: "Int"}
		case "dyntype":
			v := env.eval(x.Args[0])
			return Val{T: app("dyntype", v.T), Ty: intT, So: "Int"}
		case "tid":
			ty, _ := u.resolveType(env.home, x.Args[0].(*SType).T)
			return Val{T: strconv.Itoa(u.sc.tid(ty)), Ty: intT, So: "Int"}
		case "zero":
			ty, _ := u.resolveType(env.home, x.Args[0].(*SType).T)
			return u.zero(ty)
		case "args":
			anyT := types.NewInterfaceType(nil, nil)
			st := types.NewSlice(anyT)
			so := u.sortOf(st)
			arr := u.d.constant("emptyarr_Int", "(Array Int Int)")
			for i, a := range x.Args {
				v := u.convert(env.eval(a), anyT)
				arr = app("store", arr, strconv.Itoa(i), v.T)
			}
			return Val{T: u.mkSlice(so, arr, "0", strconv.Itoa(len(x.Args)), "false"), Ty: st, So: so}
		case "mk":
			ty, so := u.resolveType(env.home, x.Args[0].(*SType).T)
			st, ok := ty.Underlying().(*types.Struct)
			if !ok || st.NumFields() != len(x.Args)-1 {
				env.fail("mk(%s, ...): needs one value per field", x.Args[0].String())
			}
			var fs []string
			for i, a := range x.Args[1:] {
				v := u.convert(env.eval(a), st.Field(i).Type())
				fs = append(fs, v.T)
			}
			return Val{T: app("mk_"+so, fs...), Ty: ty, So: so}
		case "get":
			// get(m, k): Go's m[k] (the zero value for absent keys)
			m := env.eval(x.Args[0])
			mt, ok := m.Ty.Underlying().(*types.Map)
			if !ok {
				env.fail("get() on non-map")
			}
			k := u.convert(env.eval(x.Args[1]), mt.Key())
			v, _ := u.mapGet(m, k.T, mt)
			return Val{T: v, Ty: mt.Elem(), So: u.sortOf(mt.Elem())}
		case "loopentry":
			if env.loopPre == nil {
				env.fail("loopentry() outside a loop clause")
			}
			n := *env
			n.st = env.loopPre
			return n.eval(x.Args[0])
		case "apply":
			// apply(f, xs...): the result of calling the function value f
			f := env.eval(x.Args[0])
			var as []Val
			for _, a := range x.Args[1:] {
				as = append(as, env.eval(a))
			}
			r, ok := u.applyTerm(f, as)
			if !ok {
				env.fail("apply(): not a single-result function value of %d parameters", len(as))
			}
			return r
		case "count":
			name := x.Args[0].(*SIdent).Name
			if v, ok := env.st.ghost["count:"+name]; ok {
				return v
			}
			return Val{T: "0", Ty: intT, So: "Int"}
		case "min", "max":
			a, b := env.eval(x.Args[0]), env.eval(x.Args[1])
			op := "<="
			if id.Name == "max" {
				op = ">="
			}
			return Val{T: sIte(app(op, a.T, b.T), a.T, b.T), Ty: a.Ty, So: "Int"}
		case "bit":
			u.declareBitops()
			a, b := env.eval(x.Args[0]), env.eval(x.Args[1])
			return Val{T: bitApp(a.T, b.T), Ty: boolT, So: "Bool"}
		case "biteq":
			u.declareBitops()
			a, b := env.eval(x.Args[0]), env.eval(x.Args[1])
			return Val{T: app("biteq", a.T, b.T), Ty: boolT, So: "Bool"}
		case "allocated":
			a := env.eval(x.Args[0])
			return Val{T: app("select", u.alloc(env.st), a.T), Ty: boolT, So: "Bool"}
		case "pow2":
			a := env.eval(x.Args[0])
			u.d.declarePow2()
			return Val{T: app("pow2", a.T), Ty: intT, So: "Int"}
		case "str_prefixof":
			a, b := env.eval(x.Args[0]), env.eval(x.Args[1])
			return Val{T: app("str.prefixof", a.T, b.T), Ty: boolT, So: "Bool"}
		case "str_suffixof":
			a, b := env.eval(x.Args[0]), env.eval(x.Args[1])
			return Val{T: app("str.suffixof", a.T, b.T), Ty: boolT, So: "Bool"}
		case "str_contains":
			a, b := env.eval(x.Args[0]), env.eval(x.Args[1])
			return Val{T: app("str.contains", a.T, b.T), Ty: boolT, So: "Bool"}
		case "str_indexof":
			a, b := env.eval(x.Args[0]), env.eval(x.Args[1])
			return Val{T: app("str.indexof", a.T, b.T, "0"), Ty: intT, So: "Int"}
		case "store":
			a, i, v := env.eval(x.Args[0]), env.eval(x.Args[1]), env.eval(x.Args[2])
			return Val{T: app("store", a.T, i.T, v.T), Ty: a.Ty, So: a.So}
		case "emptyset":
			ty, so := u.resolveType(env.home, x.Args[0].(*SType).T)
			_ = ty
			return Val{T: fmt.Sprintf("((as const (Array %s Bool)) false)", so), So: "(Array " + so + " Bool)"}
		}
		// ghost function of the home package
		if env.home != nil {
			if g := u.eng.ghosts[env.home.PkgPath+"."+id.Name]; g != nil {
				var args []Val
				for _, a := range x.Args {
					args = append(args, env.eval(a))
				}
				return env.ghostCall(g, args)
			}
			// Go function of the home package with a pure contract
			if obj, ok := env.home.Types.Scope().Lookup(id.Name).(*types.Func); ok {
				return env.pureCall(obj, nil, x.Args)
			}
		}
		env.fail("unknown function %s", id.Name)
	}
	if s, ok := x.Fun.(*SSel); ok {
		// pkg.Func(...)
		if id, ok := s.X.(*SIdent); ok {
			if _, isVar := env.lookupValue(id.Name); !isVar {
				if p := env.importedPkg(id.Name); p != nil {
					if g := u.eng.ghosts[p.Path()+"."+s.Name]; g != nil {
						var args []Val
						for _, a := range x.Args {
							args = append(args, env.eval(a))
						}
						return env.ghostCall(g, args)
					}
					if obj, ok := p.Scope().Lookup(s.Name).(*types.Func); ok {
						return env.pureCall(obj, nil, x.Args)
					}
					env.fail("unknown function %s.%s", id.Name, s.Name)
				}
			}
		}
		// method call on a value
		recv := env.eval(s.X)
		if recv.Ty == nil {
			env.fail("method call on ghost value in %s", x.String())
		}
		obj, path, _ := types.LookupFieldOrMethod(recv.Ty, true, env.homeTypes(), s.Name)
		if f, ok := obj.(*types.Func); ok {
			if len(path) > 1 {
				// promoted method of an embedded field
				fsig := f.Type().(*types.Signature)
				inner := u.readPathNoCheck(env.st, recv, path[:len(path)-1])
				_, wantPtr := isPointer(fsig.Recv().Type())
				_, basePtr := isPointer(recv.Ty)
				_, innerPtr := isPointer(inner.Ty)
				if wantPtr && basePtr && !innerPtr && !isInterface(inner.Ty) {
					recv = Val{T: recv.T, Ty: types.NewPointer(inner.Ty), So: "Int"}
				} else {
					recv = inner
				}
			}
			return env.pureCall(f, &recv, x.Args)
		}
		env.fail("no method %s on %v", s.Name, recv.Ty)
	}
	env.fail("cannot call %s", x.Fun.String())
	return Val{}
}

func (u *Unit) lenOf(v Val, env *SpecEnv) string {
	if v.So == "String" {
		return app("str.len", v.T)
	}
	if v.Ty != nil {
		switch t := v.Ty.Underlying().(type) {
		case *types.Slice:
			return app("slen_"+v.So, v.T)
		case *types.Map:
			return app("mcard_"+v.So, v.T)
		case *types.Array:
			return strconv.FormatInt(t.Len(), 10)
		}
	}
	if env != nil {
		env.fail("len of sort %s", v.So)
	}
	return "0"
}

// pureCall translates a call of a Go function inside a specification. The function must
// have a contract marked pure; the call denotes the uninterpreted function P_f(args).
func (env *SpecEnv) pureCall(f *types.Func, recv *Val, args []SExpr) Val {
	u := env.u
	pk, key := funcKey(f)
	c := u.eng.lookupContract(pk, key)
	if c == nil || !c.Pure {
		env.fail("function %s.%s used in a specification has no pure contract", pk, key)
	}
	sig := f.Type().(*types.Signature)
	var vals []Val
	if recv != nil {
		rv := *recv
		// adjust receiver (value vs pointer)
		if sig.Recv() != nil {
			if _, wantPtr := isPointer(sig.Recv().Type()); !wantPtr {
				if _, havePtr := isPointer(rv.Ty); havePtr && !isInterface(sig.Recv().Type()) {
					rv = u.deref(env.st, rv, token.NoPos)
				}
			}
			if isInterface(sig.Recv().Type()) && !isInterface(rv.Ty) {
				rv = u.convert(rv, sig.Recv().Type())
			}
		}
		vals = append(vals, rv)
	}
	for i, a := range args {
		v := env.eval(a)
		if i < sig.Params().Len() {
			v = u.convert(v, sig.Params().At(i).Type())
		}
		vals = append(vals, v)
	}
	if sig.Results().Len() != 1 {
		env.fail("pure function %s must have one result", key)
	}
	rt := sig.Results().At(0).Type()
	u.pureAxiom(pk, key, c, f)
	return u.pureApp(pk, key, vals, rt, env.st)
}

// pureAxiom states the contract of a pure function about its uninterpreted function symbol:
// forall args :: requires ==> ensures[result := P_f(args)]. The contract itself is proved on
// the function's body (or listed as trusted for externs).
func (u *Unit) pureAxiom(pk, key string, c *Contract, f *types.Func) {
	id := "pure:" + pk + "." + key
	if u.ghostDone[id] {
		return
	}
	u.ghostDone[id] = true
	sig := f.Type().(*types.Signature)
	var vals []Val
	var decls []string
	names := map[string]Val{}
	mk := func(name string, t types.Type, i int) Val {
		bn := fmt.Sprintf("%s!p%d", mangle(name), i)
		v := Val{T: bn, Ty: t, So: u.sortOf(t)}
		decls = append(decls, fmt.Sprintf("(%s %s)", bn, v.So))
		return v
	}
	var recv *Val
	if sig.Recv() != nil {
		v := mk("recv", sig.Recv().Type(), 99)
		recv = &v
		vals = append(vals, v)
	}
	var args []Val
	for i := 0; i < sig.Params().Len(); i++ {
		v := mk(sig.Params().At(i).Name(), sig.Params().At(i).Type(), i)
		args = append(args, v)
		vals = append(vals, v)
	}
	_ = names
	// the heap locations the function reads are universally quantified as well
	hst := newState()
	hst.epoch = "pure"
	for _, rk := range u.readsKeys(c) {
		bn := fmt.Sprintf("%s!ph", rk.key)
		hst.heap[rk.key] = bn
		decls = append(decls, fmt.Sprintf("(%s %s)", bn, rk.sort))
	}
	res := u.pureApp(pk, key, vals, sig.Results().At(0).Type(), hst)
	env := u.calleeEnv(hst, nil, c, pk, sig, sig, recv, args, []Val{res})
	nkeys := len(hst.heap)
	var pre, post, guards []string
	for _, v := range vals {
		if inv := u.typeInv(v); inv != "true" {
			guards = append(guards, inv)
		}
	}
	for _, r := range c.Requires {
		pre = append(pre, env.evalBool(r.Expr))
	}
	for _, e := range c.Ensures {
		post = append(post, env.evalBool(e.Expr))
	}
	if inv := u.typeInv(res); inv != "true" {
		post = append(post, inv)
	}
	if len(hst.heap) != nkeys {
		var extra []string
		for k := range hst.heap {
			extra = append(extra, k)
		}
		panic(specErr{fmt.Sprintf("pure function %s: contract reads heap locations not listed in `reads` (have %v)", key, extra)})
	}
	body := sImp(sAnd(append(guards, pre...)...), sAnd(post...))
	if len(decls) == 0 {
		u.d.axiom(id, body)
	} else {
		u.d.axiom(id, fmt.Sprintf("(forall (%s) (! %s :pattern (%s)))", strings.Join(decls, " "), body, res.T))
	}
	if c.Extern || c.Trusted {
		u.trustedUsed[pk+"."+key] = true
	}
}

type readKey struct{ key, sort string }

// readsKeys resolves the `reads` clause (Type.field, relative to the contract's home package)
// into heap keys.
func (u *Unit) readsKeys(c *Contract) []readKey {
	var out []readKey
	home := u.eng.pkgs[c.PkgPath]
	if c.Extern {
		home = u.eng.pkgs[u.eng.contractHome[c]]
	}
	for _, r := range c.Reads {
		if strings.HasPrefix(r, "global.") {
			name := strings.TrimPrefix(r, "global.")
			var obj *types.Var
			if i := strings.LastIndex(name, "."); i >= 0 {
				if p := (&SpecEnv{u: u, home: home}).importedPkg(name[:i]); p != nil {
					obj, _ = p.Scope().Lookup(name[i+1:]).(*types.Var)
				}
			} else if home != nil {
				obj, _ = home.Types.Scope().Lookup(name).(*types.Var)
			}
			if obj == nil {
				panic(specErr{"reads " + r + ": unknown global"})
			}
			out = append(out, readKey{u.globalKey(obj), u.sortOf(obj.Type())})
			continue
		}
		i := strings.LastIndex(r, ".")
		if i < 0 {
			panic(specErr{"reads " + r + ": want Type.field"})
		}
		ty, so := u.resolveType(home, &STypeExpr{Kind: "name", Name: r[:i]})
		s, ok := ty.Underlying().(*types.Struct)
		if !ok {
			panic(specErr{"reads " + r + ": not a struct type"})
		}
		found := false
		for j := 0; j < s.NumFields(); j++ {
			if s.Field(j).Name() == r[i+1:] {
				out = append(out, readKey{u.heapKeyField(so, r[i+1:]), "(Array Int " + u.sortOf(s.Field(j).Type()) + ")"})
				found = true
			}
		}
		if !found {
			panic(specErr{"reads " + r + ": no such field"})
		}
	}
	return out
}

func (u *Unit) pureApp(pk, key string, vals []Val, rt types.Type, st *State) Val {
	name := "P_" + mangle(lastSeg(pk)) + "_" + mangle(key)
	var sorts, ts []string
	for _, v := range vals {
		sorts = append(sorts, v.So)
		ts = append(ts, v.T)
	}
	if c := u.eng.lookupContract(pk, key); c != nil {
		for _, rk := range u.readsKeys(c) {
			sorts = append(sorts, rk.sort)
			ts = append(ts, u.heapGet(st, rk.key, rk.sort))
		}
	}
	rs := u.sortOf(rt)
	u.d.fun(name, sorts, rs)
	if len(ts) == 0 {
		return Val{T: name, Ty: rt, So: rs}
	}
	return Val{T: app(name, ts...), Ty: rt, So: rs}
}

func lastSeg(p string) string {
	if i := strings.LastIndex(p, "/"); i >= 0 {
		return p[i+1:]
	}
	return p
}

// ghostCall applies a ghost function, declaring it (and its definition) on first use.
func (env *SpecEnv) ghostCall(g *GhostFn, args []Val) Val {
	u := env.u
	home := u.eng.pkgs[ghostHome(u.eng, g)]
	name := "g_" + mangle(g.Name)
	var sorts []string
	var ptypes []types.Type
	for _, p := range g.Params {
		ty, so := u.resolveType(home, p.T)
		sorts = append(sorts, so)
		ptypes = append(ptypes, ty)
	}
	rty, rso := u.resolveType(home, g.Result)
	if len(args) != len(g.Params) {
		env.fail("ghost %s: %d arguments, want %d", g.Name, len(args), len(g.Params))
	}
	u.d.fun(name, sorts, rso)
	var ts []string
	for i, a := range args {
		if ptypes[i] != nil {
			a = u.convert(a, ptypes[i])
		}
		if a.So != sorts[i] {
			env.fail("ghost %s: argument %d has sort %s, want %s", g.Name, i, a.So, sorts[i])
		}
		ts = append(ts, a.T)
	}
	if g.Body != nil && !u.ghostDone[name] {
		u.ghostDone[name] = true
		// definitional axiom
		genv := &SpecEnv{u: u, st: newState(), home: home, bound: map[string]Val{}}
		var decls, bvs []string
		for i, p := range g.Params {
			bn := fmt.Sprintf("%s!g%d", p.Name, i)
			genv.bound[p.Name] = Val{T: bn, Ty: ptypes[i], So: sorts[i]}
			decls = append(decls, fmt.Sprintf("(%s %s)", bn, sorts[i]))
			bvs = append(bvs, bn)
		}
		body := genv.eval(g.Body)
		if rty != nil {
			body = u.convert(body, rty)
		}
		if len(bvs) == 0 {
			u.d.axiom("ghostdef."+name, sEq(name, body.T))
		} else {
			lhs := app(name, bvs...)
			u.d.axiom("ghostdef."+name, fmt.Sprintf("(forall (%s) (! (= %s %s) :pattern (%s)))", strings.Join(decls, " "), lhs, body.T, lhs))
		}
	}
	if len(ts) == 0 {
		return Val{T: name, Ty: rty, So: rso}
	}
	return Val{T: app(name, ts...), Ty: rty, So: rso}
}

func ghostHome(e *Engine, g *GhostFn) string {
	for path, cf := range e.cfiles {
		for _, x := range cf.Ghosts {
			if x == g {
				return path
			}
		}
	}
	return ""
}

// resolveType maps a contract-language type to a Go type (nil for ghost-only types) and an SMT sort.
func (u *Unit) resolveType(home *packages.Package, t *STypeExpr) (types.Type, string) {
	switch t.Kind {
	case "ptr":
		et, _ := u.resolveType(home, t.Elem)
		if et == nil {
			return nil, "Int"
		}
		pt := types.NewPointer(et)
		return pt, "Int"
	case "slice":
		et, es := u.resolveType(home, t.Elem)
		if et == nil {
			return nil, u.sc.sliceSort(es)
		}
		st := types.NewSlice(et)
		return st, u.sortOf(st)
	case "map":
		kt, _ := u.resolveType(home, t.Key)
		vt, _ := u.resolveType(home, t.Elem)
		if kt != nil && vt != nil {
			mt := types.NewMap(kt, vt)
			return mt, u.sortOf(mt)
		}
	case "goarray":
		et, _ := u.resolveType(home, t.Elem)
		n, _ := strconv.ParseInt(t.Name, 10, 64)
		if et != nil {
			at := types.NewArray(et, n)
			return at, u.sortOf(at)
		}
	case "set":
		_, es := u.resolveType(home, t.Elem)
		return nil, "(Array " + es + " Bool)"
	case "array":
		_, ks := u.resolveType(home, t.Key)
		_, vs := u.resolveType(home, t.Elem)
		return nil, "(Array " + ks + " " + vs + ")"
	case "func":
		var ps []*types.Var
		for _, a := range t.Args {
			at, _ := u.resolveType(home, a)
			ps = append(ps, types.NewVar(token.NoPos, nil, "", at))
		}
		rt, _ := u.resolveType(home, t.Elem)
		sig := types.NewSignatureType(nil, nil, nil, types.NewTuple(ps...), types.NewTuple(types.NewVar(token.NoPos, nil, "", rt)), false)
		return sig, "Int"
	case "name":
		switch t.Name {
		case "int", "int8", "int16", "int32", "int64", "uint", "uint8", "uint16", "uint32", "uint64", "uintptr", "byte", "rune", "bool", "string", "float64", "float32", "any", "error":
			obj := types.Universe.Lookup(t.Name)
			ty := obj.Type()
			return ty, u.sortOf(ty)
		case "Int":
			return nil, "Int"
		case "Bool":
			return nil, "Bool"
		case "Ref":
			return nil, "Int"
		}
		if i := strings.LastIndex(t.Name, "."); i >= 0 {
			pk, nm := t.Name[:i], t.Name[i+1:]
			var tp *types.Package
			if home != nil {
				tp = (&SpecEnv{u: u, home: home}).importedPkg(pk)
			}
			if tp == nil {
				for path, p := range u.eng.pkgs {
					if path == pk && p.Types != nil {
						tp = p.Types
					}
				}
			}
			if tp == nil {
				tp = u.eng.findTypesPackage(pk)
			}
			if tp != nil {
				if obj, ok := tp.Scope().Lookup(nm).(*types.TypeName); ok {
					return obj.Type(), u.sortOf(obj.Type())
				}
			}
			panic(specErr{fmt.Sprintf("unknown type %s", t.Name)})
		}
		if home != nil {
			if obj, ok := home.Types.Scope().Lookup(t.Name).(*types.TypeName); ok {
				return obj.Type(), u.sortOf(obj.Type())
			}
		}
		// type parameter of the function under verification
		if u.sig != nil {
			if tps := u.sig.RecvTypeParams(); tps != nil {
				for i := 0; i < tps.Len(); i++ {
					if tps.At(i).Obj().Name() == t.Name {
						return tps.At(i), u.sortOf(tps.At(i))
					}
				}
			}
			if tps := u.sig.TypeParams(); tps != nil {
				for i := 0; i < tps.Len(); i++ {
					if tps.At(i).Obj().Name() == t.Name {
						return tps.At(i), u.sortOf(tps.At(i))
					}
				}
			}
		}
		// a type parameter of some generic type of the home package (lemmas and axioms about generic code)
		if home != nil {
			names := home.Types.Scope().Names()
			for _, n := range names {
				if tn, ok := home.Types.Scope().Lookup(n).(*types.TypeName); ok {
					if named, ok := tn.Type().(*types.Named); ok && named.TypeParams() != nil {
						for i := 0; i < named.TypeParams().Len(); i++ {
							if named.TypeParams().At(i).Obj().Name() == t.Name {
								tp := named.TypeParams().At(i)
								return tp, u.sortOf(tp)
							}
						}
					}
				}
			}
		}
		panic(specErr{fmt.Sprintf("unknown type %s", t.Name)})
	}
	panic(specErr{fmt.Sprintf("unsupported type %s", t.String())})
}

func (e *Engine) findTypesPackage(nameOrPath string) *types.Package {
	var found *types.Package
	seen := map[*types.Package]bool{}
	var walk func(p *types.Package)
	walk = func(p *types.Package) {
		if p == nil || seen[p] || found != nil {
			return
		}
		seen[p] = true
		if p.Path() == nameOrPath || p.Name() == nameOrPath {
			found = p
			return
		}
		for _, i := range p.Imports() {
			walk(i)
		}
	}
	for _, p := range e.pkgs {
		walk(p.Types)
	}
	return found
}

// ghostFieldKey resolves a ghost field of (a pointer to) a named struct type.
func (u *Unit) ghostFieldKey(t types.Type, name string) (key, sort string, ty types.Type, ok bool) {
	pt, isPtr := isPointer(t)
	if !isPtr {
		return
	}
	named, isNamed := types.Unalias(pt.Elem()).(*types.Named)
	if !isNamed || named.Obj().Pkg() == nil {
		return
	}
	k := named.Obj().Pkg().Path() + "." + named.Obj().Name()
	for _, gf := range u.eng.ghostFields[k] {
		if gf.Name == name {
			home := u.eng.pkgs[u.eng.ghostFieldHome[k]]
			gty, gso := u.resolveType(home, gf.Type)
			so := u.sortOf(pt.Elem())
			return "H_" + so + "_$" + mangle(name), "(Array Int " + gso + ")", gty, true
		}
	}
	return
}
