package main

// Function values with a known pure meaning.
//
// A function value is an Int (closure identity). For method values of pure methods and for
// function literals whose body is a single `return e` over pure operations the engine emits
//     forall xs :: apply_<sig>(id, xs) == <meaning>(xs)
// so that contracts of higher-order library functions (slices.EqualFunc, slices.ContainsFunc)
// can talk about the function argument with the spec builtin apply(f, xs...).
// Everything else stays opaque (apply of it is an unconstrained uninterpreted function).

import (
	"go/ast"
	"go/types"
	"strconv"
	"strings"
)

func (u *Unit) applyFn(sig *types.Signature) (name string, sorts []string, rs string, ok bool) {
	if sig.Results().Len() != 1 || sig.Variadic() {
		return "", nil, "", false
	}
	sorts = []string{"Int"}
	for i := 0; i < sig.Params().Len(); i++ {
		sorts = append(sorts, u.sortOf(sig.Params().At(i).Type()))
	}
	rs = u.sortOf(sig.Results().At(0).Type())
	name = "apply_" + mangle(strings.Join(sorts[1:], "_")) + "_to_" + mangle(rs)
	u.d.fun(name, sorts, rs)
	return name, sorts, rs, true
}

// applyTerm builds apply(f, args...).
func (u *Unit) applyTerm(f Val, args []Val) (Val, bool) {
	sig, ok := f.Ty.Underlying().(*types.Signature)
	if !ok {
		return Val{}, false
	}
	name, _, rs, ok := u.applyFn(sig)
	if !ok || len(args) != sig.Params().Len() {
		return Val{}, false
	}
	ts := []string{f.T}
	for i, a := range args {
		ts = append(ts, u.convert(a, sig.Params().At(i).Type()).T)
	}
	rt := sig.Results().At(0).Type()
	return Val{T: app(name, ts...), Ty: rt, So: rs}, true
}

// defineFuncValue assumes forall xs :: apply(id, xs) == body(xs), where body is computed by
// mean from the bound variables. mean may fail (return false): the value then stays opaque.
func (u *Unit) defineFuncValue(st *State, id string, sig *types.Signature, mean func(st *State, xs []Val) (Val, bool)) {
	name, sorts, _, ok := u.applyFn(sig)
	if !ok {
		return
	}
	var xs []Val
	var binders, ts []string
	ts = append(ts, id)
	for i := 0; i < sig.Params().Len(); i++ {
		u.nfresh++
		n := "x!fv" + strconv.Itoa(u.nfresh)
		pt := sig.Params().At(i).Type()
		xs = append(xs, Val{T: n, Ty: pt, So: sorts[i+1]})
		binders = append(binders, "("+n+" "+sorts[i+1]+")")
		ts = append(ts, n)
	}
	scratch := st.clone()
	nh := len(scratch.hyps)
	nobl := len(u.obls)
	nwarn := len(u.warnings)
	saveCallN, saveSafeN := map[string]int{}, map[string]int{}
	for k, v := range u.callN {
		saveCallN[k] = v
	}
	for k, v := range u.safeN {
		saveSafeN[k] = v
	}
	var body Val
	good := func() (good bool) {
		defer func() {
			if r := recover(); r != nil {
				if _, isUns := r.(unsupportedErr); isUns {
					good = false
					return
				}
				panic(r)
			}
		}()
		body, good = mean(scratch, xs)
		return
	}()
	// obligations of the scratch evaluation are dropped: the literal is not verified here
	u.obls = u.obls[:nobl]
	u.warnings = u.warnings[:nwarn]
	u.callN, u.safeN = saveCallN, saveSafeN
	if !good || len(scratch.hyps) != nh || scratch.epoch != st.epoch {
		return
	}
	lhs := app(name, ts...)
	eq := sEq(lhs, u.convert(body, sig.Results().At(0).Type()).T)
	if len(binders) == 0 {
		st.assume(eq)
		return
	}
	st.assume("(forall (" + strings.Join(binders, " ") + ") (! " + eq + " :pattern (" + lhs + ")))")
}

// methodValue gives a method value x.M of a pure method its meaning.
func (u *Unit) methodValue(st *State, x *ast.SelectorExpr, sel *types.Selection, id string) {
	fo, ok := sel.Obj().(*types.Func)
	if !ok || len(sel.Index()) != 1 {
		return
	}
	sig, ok := u.typeOf(x).Underlying().(*types.Signature)
	if !ok {
		return
	}
	pk, key := funcKey(fo)
	ct := u.eng.lookupContract(pk, key)
	if ct == nil || !ct.Pure || len(u.readsKeys(ct)) > 0 {
		return
	}
	fsig := fo.Type().(*types.Signature)
	_, wantPtr := isPointer(fsig.Recv().Type())
	recv := u.eval(st, x.X)
	_, havePtr := isPointer(recv.Ty)
	if isInterface(fsig.Recv().Type()) {
		recv = u.convert(recv, fsig.Recv().Type())
	} else if wantPtr != havePtr && !isInterface(recv.Ty) {
		return
	}
	u.usedContracts[pk+"."+key] = true
	u.defineFuncValue(st, id, sig, func(s2 *State, xs []Val) (Val, bool) {
		return u.pureApp(pk, key, append([]Val{recv}, xs...), sig.Results().At(0).Type(), s2), true
	})
}

// literalValue gives a function literal of the form func(xs) T { return e } its meaning when
// e evaluates without side effects.
func (u *Unit) literalValue(st *State, lit *ast.FuncLit, id string) {
	if len(lit.Body.List) != 1 {
		return
	}
	ret, ok := lit.Body.List[0].(*ast.ReturnStmt)
	if !ok || len(ret.Results) != 1 {
		return
	}
	sig, ok := u.typeOf(lit).Underlying().(*types.Signature)
	if !ok {
		return
	}
	u.defineFuncValue(st, id, sig, func(s2 *State, xs []Val) (Val, bool) {
		for i := 0; i < sig.Params().Len(); i++ {
			s2.vars[sig.Params().At(i)] = xs[i]
		}
		return u.eval(s2, ret.Results[0]), true
	})
}

// closureMeaning: a variable that holds exactly one function literal whose contract is `pure`
// denotes a function value with the literal's contract:
//     forall xs :: requires(xs) ==> ensures(xs, apply(v, xs))
// (the literal itself is verified against that contract as a unit of its own; inside its own
// body this is the induction hypothesis for recursive uses, termination not proved).
func (u *Unit) closureMeaning(st *State, o *types.Var, v Val) {
	lit, ok := u.closures[o]
	if !ok {
		return
	}
	key, ok := u.litKeys[lit]
	if !ok {
		return
	}
	ct := u.eng.lookupContract(u.pkg.PkgPath, key)
	if ct == nil || !ct.Pure {
		return
	}
	if _, done := st.ghost["fv:"+v.T]; done {
		return
	}
	st.ghost["fv:"+v.T] = Val{T: "true", So: "Bool"}
	sig, ok := o.Type().Underlying().(*types.Signature)
	if !ok {
		return
	}
	name, sorts, rs, ok := u.applyFn(sig)
	if !ok {
		return
	}
	var xs []Val
	var binders []string
	ts := []string{v.T}
	for i := 0; i < sig.Params().Len(); i++ {
		u.nfresh++
		n := "x!cv" + strconv.Itoa(u.nfresh)
		xs = append(xs, Val{T: n, Ty: sig.Params().At(i).Type(), So: sorts[i+1]})
		binders = append(binders, "("+n+" "+sorts[i+1]+")")
		ts = append(ts, n)
	}
	lhs := Val{T: app(name, ts...), Ty: sig.Results().At(0).Type(), So: rs}
	env := u.calleeEnv(st, st, ct, u.pkg.PkgPath, sig, sig, nil, xs, []Val{lhs})
	env.scope = u.info.Scopes[lit.Type]
	env.pos = lit.Body.Lbrace + 1
	var pre, post []string
	for _, x := range xs {
		if inv := u.typeInv(x); inv != "true" {
			pre = append(pre, inv)
		}
	}
	for _, r := range ct.Requires {
		pre = append(pre, env.evalBool(r.Expr))
	}
	for _, e := range ct.Ensures {
		post = append(post, env.evalBool(e.Expr))
	}
	u.usedContracts[u.pkg.PkgPath+"."+key] = true
	body := sImp(sAnd(pre...), sAnd(post...))
	if len(binders) == 0 {
		st.assume(body)
		return
	}
	st.assume("(forall (" + strings.Join(binders, " ") + ") (! " + body + " :pattern (" + lhs.T + ")))")
}
