package main

// Calls: builtins, conversions, contract application, inlining, havoc.

import (
	"os"
	"fmt"
	"go/ast"

	"golang.org/x/tools/go/packages"
	"go/token"
	"go/types"
	"strconv"
	"strings"
)

func (u *Unit) call(st *State, c *ast.CallExpr) []Val {
	fun := ast.Unparen(c.Fun)
	// conversion
	if tv, ok := u.info.Types[fun]; ok && tv.IsType() {
		arg := u.eval(st, c.Args[0])
		return []Val{u.explicitConv(st, arg, tv.Type, c.Pos())}
	}
	// strip explicit instantiation
	if ix, ok := fun.(*ast.IndexExpr); ok {
		if tv, ok := u.info.Types[ix.X]; ok {
			if _, isSig := tv.Type.Underlying().(*types.Signature); isSig {
				fun = ix.X
			}
		}
	}
	if ix, ok := fun.(*ast.IndexListExpr); ok {
		fun = ix.X
	}
	// builtin
	if id, ok := fun.(*ast.Ident); ok {
		if b, ok := u.info.ObjectOf(id).(*types.Builtin); ok {
			return u.callBuiltin(st, b.Name(), c)
		}
	}
	var callee types.Object
	var recvExpr ast.Expr
	var sel *types.Selection
	switch f := fun.(type) {
	case *ast.Ident:
		callee = u.info.ObjectOf(f)
	case *ast.SelectorExpr:
		if s, ok := u.info.Selections[f]; ok {
			sel = s
			callee = s.Obj()
			recvExpr = f.X
		} else {
			callee = u.info.ObjectOf(f.Sel)
		}
	case *ast.FuncLit:
		return u.callLiteral(st, f, c)
	}
	sigT, _ := u.typeOf(c.Fun).Underlying().(*types.Signature)
	if sigT == nil {
		u.unsupported(c.Pos(), "call of non-function")
	}
	switch fo := callee.(type) {
	case *types.Func:
		var recv *Val
		if sel != nil && sel.Kind() == types.MethodVal {
			rv := u.eval(st, recvExpr)
			// walk embedded path to the receiver
			idx := sel.Index()
			fsig := fo.Type().(*types.Signature)
			embeddedViaPtr := false
			if len(idx) > 1 {
				inner := u.readPath(st, rv, idx[:len(idx)-1], c.Pos())
				_, wantPtr := isPointer(fsig.Recv().Type())
				_, basePtr := isPointer(rv.Ty)
				_, innerPtr := isPointer(inner.Ty)
				if wantPtr && basePtr && !innerPtr && !isInterface(inner.Ty) {
					// method of an embedded struct value reached through a pointer: the receiver
					// &x.embedded is identified with x (no temporary copy of the embedded value)
					embeddedViaPtr = true
					rv = Val{T: rv.T, Ty: types.NewPointer(inner.Ty), So: "Int"}
				} else {
					rv = inner
				}
			}
			if !embeddedViaPtr {
				rv = u.adjustRecv(st, rv, fsig.Recv().Type(), recvExpr, c.Pos())
			}
			recv = &rv
		}
		// the temporary receiver cell of (&x).M(args) must survive nested calls in args, and
		// must hold x's value at call time (args are evaluated after &x but before the call)
		wb, hasWB := st.ghost["writeback"]
		delete(st.ghost, "writeback")
		args := u.evalArgs(st, c, sigT)
		if hasWB {
			if id, ok := ast.Unparen(recvExpr).(*ast.Ident); ok {
				u.storeDeref(st, wb, u.eval(st, id))
			}
			st.ghost["writeback"] = wb
		}
		return u.callFunc(st, fo, recv, args, c, sigT)
	case *types.Var:
		// function value: closure bound to a known literal, or unknown
		if lit, ok := u.closures[fo]; ok {
			args := u.evalArgs(st, c, sigT)
			key := u.litKeys[lit]
			if ct := u.eng.lookupContract(u.pkg.PkgPath, key); ct != nil {
				return u.applyContract(st, ct, u.pkg.PkgPath, key, lit.Type, sigT, nil, args, c.Pos(), lit)
			}
			return u.inlineLit(st, lit, args, c)
		}
		args := u.evalArgs(st, c, sigT)
		// call through a struct field of function type: contract keyed (Type).Field
		if sel != nil && sel.Kind() == types.FieldVal && fo.IsField() {
			_, named := recvTypeName(sel.Recv())
			if named != nil && named.Obj().Pkg() != nil {
				pk := named.Obj().Pkg().Path()
				key := "(" + named.Obj().Name() + ")." + fo.Name()
				if ct := u.eng.lookupContract(pk, key); ct != nil {
					return u.applyContract(st, ct, pk, key, nil, sigT, nil, args, c.Pos(), nil)
				}
			}
		}
		// value of a named function type with a `functype` contract
		if named, ok := types.Unalias(fo.Type()).(*types.Named); ok && named.Obj().Pkg() != nil {
			pk, key := named.Obj().Pkg().Path(), "type:"+named.Obj().Name()
			if ct := u.eng.lookupContract(pk, key); ct != nil {
				u.eval(st, fun)
				return u.applyContract(st, ct, pk, key, nil, sigT, nil, args, c.Pos(), nil)
			}
		}
		fv := u.eval(st, fun)
		if u.contract != nil {
			for _, pc := range u.contract.PureCalls {
				if pc == exprString(fun) {
					if r, ok := u.applyTerm(fv, args); ok {
						st.assume(u.typeInv(r))
						u.noteAbstract(c.Pos(), "call of "+pc+" treated as a pure function of its arguments (purecall)")
						return []Val{r}
					}
				}
			}
		}
		return u.callUnknown(st, "func value "+exprString(fun), sigT, args, c.Pos(), &fv)
	}
	// e.g. call of a call result
	args := u.evalArgs(st, c, sigT)
	fv := u.eval(st, fun)
	return u.callUnknown(st, "func value", sigT, args, c.Pos(), &fv)
}

func exprString(e ast.Expr) string {
	return types.ExprString(e)
}

func (u *Unit) adjustRecv(st *State, rv Val, want types.Type, recvExpr ast.Expr, pos token.Pos) Val {
	if isInterface(want) {
		return u.convert(rv, want)
	}
	_, wantPtr := isPointer(want)
	_, havePtr := isPointer(rv.Ty)
	if isInterface(rv.Ty) {
		return rv
	}
	switch {
	case wantPtr && !havePtr:
		// (&x).M(): address of an addressable value. We model this by allocating a temporary cell,
		// calling, and writing the cell back (see callFunc: writeBack).
		pt := types.NewPointer(rv.Ty)
		p := u.allocValue(st, rv, pt)
		st.ghost["writeback"] = Val{T: p.T, Ty: pt, So: "Int"}
		return p
	case !wantPtr && havePtr:
		return u.deref(st, rv, pos)
	}
	return rv
}

func (u *Unit) evalArgs(st *State, c *ast.CallExpr, sig *types.Signature) []Val {
	var args []Val
	np := sig.Params().Len()
	// f(g()) with multi-value g
	if len(c.Args) == 1 && np > 1 {
		if inner, ok := ast.Unparen(c.Args[0]).(*ast.CallExpr); ok {
			rs := u.call(st, inner)
			for i, r := range rs {
				args = append(args, u.convert(r, sig.Params().At(i).Type()))
			}
			return args
		}
	}
	for i, a := range c.Args {
		if sig.Variadic() && i >= np-1 {
			if c.Ellipsis.IsValid() {
				args = append(args, u.eval(st, a))
				return args
			}
			// pack the rest into a slice
			st2 := sig.Params().At(np - 1).Type().(*types.Slice)
			so := u.sortOf(st2)
			es := u.sortOf(st2.Elem())
			arr := u.d.constant("emptyarr_"+mangle(es), "(Array Int "+es+")")
			n := 0
			for _, b := range c.Args[i:] {
				v := u.convert(u.eval(st, b), st2.Elem())
				arr = app("store", arr, strconv.Itoa(n), v.T)
				n++
			}
			args = append(args, Val{T: u.mkSlice(so, arr, "0", strconv.Itoa(n), "false"), Ty: st2, So: so})
			return args
		}
		v := u.eval(st, a)
		args = append(args, u.convert(v, sig.Params().At(i).Type()))
	}
	if sig.Variadic() && len(c.Args) < np {
		args = append(args, u.zero(sig.Params().At(np-1).Type()))
	}
	return args
}

func (u *Unit) explicitConv(st *State, v Val, to types.Type, pos token.Pos) Val {
	if v.Ty != nil && isUntypedNil(v.Ty) {
		return u.zero(to)
	}
	if isInterface(to) {
		return u.convert(v, to)
	}
	so := u.sortOf(to)
	if v.So == so {
		// integer narrowing is treated as identity (mathematical integers)
		return Val{T: v.T, Ty: to, So: so}
	}
	if isInterface(v.Ty) {
		u.unsupported(pos, "conversion from interface")
	}
	name := "conv_" + mangle(v.So) + "_to_" + mangle(so)
	r := Val{T: u.uninterp(name, []string{v.So}, so, v.T), Ty: to, So: so}
	// string(byteslice) / []byte(string): length preserving
	if v.So == "String" && strings.HasPrefix(so, "Slice_") {
		st.assume(sEq(app("slen_"+so, r.T), app("str.len", v.T)))
		st.assume(sNot(app("snil_"+so, r.T)))
		u.d.axiom("conv.bytes."+name, fmt.Sprintf("(forall ((s String) (i Int)) (! (=> (and (<= 0 i) (< i (str.len s))) (= (select (sarr_%s (%s s)) i) (str.to_code (str.at s i)))) :pattern ((select (sarr_%s (%s s)) i))))", so, name, so, name))
	}
	if so == "String" && strings.HasPrefix(v.So, "Slice_") {
		st.assume(sEq(app("str.len", r.T), app("slen_"+v.So, v.T)))
	}
	return r
}

func (u *Unit) callBuiltin(st *State, name string, c *ast.CallExpr) []Val {
	rt := u.typeOf(c)
	switch name {
	case "len", "cap":
		v := u.eval(st, c.Args[0])
		if pt, ok := isPointer(v.Ty); ok {
			if at, ok := pt.Elem().Underlying().(*types.Array); ok {
				return []Val{{T: strconv.FormatInt(at.Len(), 10), Ty: rt, So: "Int"}}
			}
		}
		if name == "cap" {
			// capacity is not modelled: an arbitrary value >= len
			cp := u.fresh("cap", "Int")
			st.assume(app(">=", cp, u.lenOf(v, nil)))
			return []Val{{T: cp, Ty: rt, So: "Int"}}
		}
		return []Val{{T: u.lenOf(v, nil), Ty: rt, So: "Int"}}
	case "append":
		s := u.eval(st, c.Args[0])
		stype, ok := rt.Underlying().(*types.Slice)
		if !ok {
			u.unsupported(c.Pos(), "append to %v", rt)
		}
		s = u.convert(s, rt)
		if c.Ellipsis.IsValid() {
			t := u.eval(st, c.Args[1])
			if isStringType(t.Ty) {
				u.unsupported(c.Pos(), "append(bytes, string...)")
			}
			t = u.convert(t, rt)
			return []Val{u.appendSlice(st, s, t)}
		}
		arr, off, ln, isnil := u.sliceParts(s)
		n := 0
		for _, a := range c.Args[1:] {
			v := u.convert(u.eval(st, a), stype.Elem())
			arr = app("store", arr, sAdd(off, sAdd(ln, strconv.Itoa(n))), v.T)
			n++
		}
		if n == 0 {
			return []Val{s}
		}
		_ = isnil
		res := Val{T: u.mkSlice(s.So, arr, off, app("+", ln, strconv.Itoa(n)), "false"), Ty: rt, So: s.So}
		if n == 1 && stype.Elem() != nil && isInterface(stype.Elem()) {
			// ground terms for quantifier instantiation: the appended element read back, and
			// reads of the old elements carried over to the result
			st.assume(sEq(u.sliceAt(res, ln), app("select", arr, ln)))
			u.nfresh++
			i := fmt.Sprintf("ap!%d", u.nfresh)
			st.assume(fmt.Sprintf("(forall ((%s Int)) (! (=> (and (<= 0 %s) (< %s %s)) (= %s %s)) :pattern (%s)))", i, i, i, ln, u.sliceAt(res, i), u.sliceAt(s, i), u.sliceAt(s, i)))
		}
		return []Val{res}
	case "make":
		switch t := rt.Underlying().(type) {
		case *types.Slice:
			n := u.eval(st, c.Args[1])
			u.safe("make", c.Pos(), st, app(">=", n.T, "0"), "make length >= 0")
			es := u.sortOf(t.Elem())
			so := u.sortOf(rt)
			arr := u.zeroArray(es, u.zero(t.Elem()).T)
			return []Val{{T: u.mkSlice(so, arr, "0", n.T, "false"), Ty: rt, So: so}}
		case *types.Map:
			so := u.sortOf(rt)
			ks, vs := u.sortOf(t.Key()), u.sortOf(t.Elem())
			ea := u.d.constant("emptymap_"+mangle(ks)+"_"+mangle(vs), "(Array "+ks+" "+vs+")")
			return []Val{{T: app("mk_"+so, fmt.Sprintf("((as const (Array %s Bool)) false)", ks), ea, "0", "false"), Ty: rt, So: so}}
		case *types.Chan:
			id := u.fresh("chan", "Int")
			st.assume(app(">", id, "0"))
			return []Val{{T: id, Ty: rt, So: "Int"}}
		}
	case "new":
		pt := rt.(*types.Pointer)
		return []Val{u.allocValue(st, u.zero(pt.Elem()), rt)}
	case "min", "max":
		acc := u.eval(st, c.Args[0])
		for _, a := range c.Args[1:] {
			b := u.eval(st, a)
			op := "<="
			if name == "max" {
				op = ">="
			}
			if acc.So != "Int" {
				u.unsupported(c.Pos(), "min/max on %s", acc.So)
			}
			acc = Val{T: sIte(app(op, acc.T, b.T), acc.T, b.T), Ty: rt, So: "Int"}
		}
		// name the result: an ite inside a slice term would end up in quantifier triggers
		nm := u.fresh(name, "Int")
		st.assume(sEq(nm, acc.T))
		return []Val{{T: nm, Ty: rt, So: "Int"}}
	case "delete":
		m := u.eval(st, c.Args[0])
		mt := m.Ty.Underlying().(*types.Map)
		k := u.convert(u.eval(st, c.Args[1]), mt.Key())
		u.assign(st, c.Args[0], u.mapDelete(m, k.T))
		return nil
	case "panic":
		u.eval(st, c.Args[0])
		u.doPanic(st, c.Pos(), "panic(...)")
		return nil
	case "copy":
		dst := u.eval(st, c.Args[0])
		src := u.eval(st, c.Args[1])
		if isStringType(src.Ty) {
			u.unsupported(c.Pos(), "copy from string")
		}
		// n = min(len(dst), len(src)); dst' agrees with src on [0,n) and with dst elsewhere
		_, doff, dlen, dnil := u.sliceParts(dst)
		_, _, slen, _ := u.sliceParts(src)
		n := sIte(app("<=", dlen, slen), dlen, slen)
		na := u.fresh("copied", "(Array Int "+u.sortOf(dst.Ty.Underlying().(*types.Slice).Elem())+")")
		nd := Val{T: u.mkSlice(dst.So, na, doff, dlen, dnil), Ty: dst.Ty, So: dst.So}
		u.nfresh++
		i := fmt.Sprintf("ci!%d", u.nfresh)
		st.assume(fmt.Sprintf("(forall ((%s Int)) (! (=> (and (<= 0 %s) (< %s %s)) (= %s %s)) :pattern (%s)))", i, i, i, n, u.sliceAt(nd, i), u.sliceAt(src, i), u.sliceAt(nd, i)))
		st.assume(fmt.Sprintf("(forall ((%s Int)) (! (=> (and (<= %s %s) (< %s %s)) (= %s %s)) :pattern (%s)))", i, n, i, i, dlen, u.sliceAt(nd, i), u.sliceAt(dst, i), u.sliceAt(nd, i)))
		u.assign(st, c.Args[0], nd)
		return []Val{{T: n, Ty: rt, So: "Int"}}
	case "print", "println":
		for _, a := range c.Args {
			u.eval(st, a)
		}
		return nil
	case "clear":
		v := u.eval(st, c.Args[0])
		u.assign(st, c.Args[0], u.zero(v.Ty))
		u.warnings = append(u.warnings, "clear() modelled as assignment of the zero value")
		return nil
	}
	u.unsupported(c.Pos(), "builtin %s", name)
	return nil
}

// appendSlice models append(s, t...) with a fresh slice described by quantified facts.
func (u *Unit) appendSlice(st *State, s, t Val) Val {
	_, _, sl, snil := u.sliceParts(s)
	_, _, tl, _ := u.sliceParts(t)
	r := Val{T: u.fresh("appended", s.So), Ty: s.Ty, So: s.So}
	_, _, rl, rnil := u.sliceParts(r)
	st.assume(sEq(rl, app("+", sl, tl)))
	st.assume(sEq(rnil, sAnd(snil, sEq(tl, "0"))))
	u.nfresh++
	i := fmt.Sprintf("ai!%d", u.nfresh)
	st.assume(fmt.Sprintf("(forall ((%s Int)) (! (=> (and (<= 0 %s) (< %s %s)) (= %s %s)) :pattern (%s)))", i, i, i, sl, u.sliceAt(r, i), u.sliceAt(s, i), u.sliceAt(r, i)))
	st.assume(fmt.Sprintf("(forall ((%s Int)) (! (=> (and (<= 0 %s) (< %s %s)) (= %s %s)) :pattern (%s)))", i, i, i, tl, u.sliceAt(r, app("+", sl, i)), u.sliceAt(t, i), u.sliceAt(t, i)))
	// ... and triggered by reads of the prefix operand
	st.assume(fmt.Sprintf("(forall ((%s Int)) (! (=> (and (<= 0 %s) (< %s %s)) (= %s %s)) :pattern (%s)))", i, i, i, sl, u.sliceAt(r, i), u.sliceAt(s, i), u.sliceAt(s, i)))
	// the same fact, triggered by reads of the result
	st.assume(fmt.Sprintf("(forall ((%s Int)) (! (=> (and (<= %s %s) (< %s (+ %s %s))) (= %s %s)) :pattern (%s)))", i, sl, i, i, sl, tl, u.sliceAt(r, i), u.sliceAt(t, app("-", i, sl)), u.sliceAt(r, i)))
	return r
}

// doPanic records that a panic is reached on the current path.
func (u *Unit) doPanic(st *State, pos token.Pos, what string) {
	if u.contract != nil && u.contract.MayPanic {
		st.assume("false")
		return
	}
	goal := "false"
	src := "unreachable: " + what
	if u.contract != nil && len(u.contract.PanicsWhen) > 0 && u.entry != nil {
		var cs []string
		for _, c := range u.contract.PanicsWhen {
			env := u.funcEnv(u.entry, u.entry)
			cs = append(cs, env.evalBool(c.Expr))
			src += " unless " + c.Text
		}
		goal = sOr(cs...)
	}
	u.oblige("nopanic", u.safeLabel("panic"), pos, st, goal, src)
	st.assume("false")
}

func (u *Unit) callFunc(st *State, fo *types.Func, recv *Val, args []Val, c *ast.CallExpr, sigT *types.Signature) []Val {
	pk, key := funcKey(fo)
	ct := u.eng.lookupContract(pk, key)
	wb, hasWB := st.ghost["writeback"]
	delete(st.ghost, "writeback")
	var res []Val
	if ct != nil && !ct.Inline {
		u.curCallArgs = c.Args
		res = u.applyContract(st, ct, pk, key, nil, sigT, recv, args, c.Pos(), nil)
		u.curCallArgs = nil
	} else if decl := u.eng.findDecl(pk, key); decl != nil && u.canInline(decl, pk, key) {
		if u.inlineDepth == 0 {
			u.callN[key]++
			u.assertArgs = append(recvList(recv), args...)
			u.checkCallAsserts(st, pk, key, u.callN[key], c.Pos())
		}
		res = u.inlineDecl(st, pk, decl, recv, args, c)
	} else {
		u.callN[key]++
		u.assertArgs = append(recvList(recv), args...)
		u.checkCallAsserts(st, pk, key, u.callN[key], c.Pos())
		if u.contract != nil && u.isPureCallExpr(c.Fun) {
			// purecall on a method / function without contract: no side effects, result arbitrary
			u.noteAbstract(c.Pos(), "call of "+exprString(c.Fun)+" treated as free of side effects (purecall)")
			for i := 0; i < sigT.Results().Len(); i++ {
				rt := sigT.Results().At(i).Type()
				v := u.mkVal(u.fresh("r", u.sortOf(rt)), rt)
				st.assume(u.typeInv(v))
				res = append(res, v)
			}
		} else {
			res = u.callUnknown(st, pk+"."+key, sigT, append(recvList(recv), args...), c.Pos(), nil)
		}
	}
	if hasWB {
		// write the temporary receiver cell back into the addressable operand
		if selx, ok := ast.Unparen(c.Fun).(*ast.SelectorExpr); ok {
			nv := u.deref(st, wb, c.Pos())
			u.assign(st, selx.X, nv)
		}
	}
	return res
}

func (u *Unit) isPureCallExpr(fun ast.Expr) bool {
	for _, pc := range u.contract.PureCalls {
		if pc == exprString(fun) {
			return true
		}
	}
	return false
}

func recvList(r *Val) []Val {
	if r == nil {
		return nil
	}
	return []Val{*r}
}

// callUnknown: no contract. Results are arbitrary and the whole heap is havocked unless
// every argument is a plain value (no references reachable) and the callee is an external
// library function, in which case only the results are arbitrary.
func (u *Unit) callUnknown(st *State, what string, sig *types.Signature, args []Val, pos token.Pos, fv *Val) []Val {
	u.warnings = append(u.warnings, fmt.Sprintf("%s: call of %s without contract: results arbitrary, heap havocked", u.posStr(pos), what))
	u.havocAll(st)
	var res []Val
	for i := 0; i < sig.Results().Len(); i++ {
		rt := sig.Results().At(i).Type()
		v := u.mkVal(u.fresh("r", u.sortOf(rt)), rt)
		st.assume(u.typeInv(v))
		res = append(res, v)
	}
	return res
}

// calleeEnv builds the spec environment for a callee's contract at a call site.
func (u *Unit) calleeEnv(st, old *State, ct *Contract, pk string, sig *types.Signature, declSig *types.Signature, recv *Val, args []Val, results []Val) *SpecEnv {
	names := map[string]Val{}
	if declSig == nil {
		declSig = sig
	}
	if recv != nil {
		names["recv"] = *recv
		if declSig.Recv() != nil && declSig.Recv().Name() != "" && declSig.Recv().Name() != "_" {
			names[declSig.Recv().Name()] = *recv
		}
	}
	for i, a := range args {
		names[fmt.Sprintf("arg%d", i)] = a
		if i < declSig.Params().Len() {
			if n := declSig.Params().At(i).Name(); n != "" && n != "_" {
				names[n] = a
			}
		}
	}
	// declared names of externs
	for i, p := range ct.Params {
		if i < len(args) {
			names[p.Name] = args[i]
		}
	}
	for i, r := range results {
		if i < declSig.Results().Len() {
			if n := declSig.Results().At(i).Name(); n != "" && n != "_" {
				names[n] = r
			}
		}
		if i < len(ct.Results) {
			names[ct.Results[i].Name] = r
		}
	}
	home := u.eng.pkgs[ct.PkgPath]
	if ct.Extern {
		home = u.eng.pkgs[u.eng.contractHome[ct]]
	}
	return &SpecEnv{u: u, st: st, old: old, names: names, bound: map[string]Val{}, home: home, results: results}
}

func (u *Unit) applyContract(st *State, ct *Contract, pk, key string, _ any, sig *types.Signature, recv *Val, args []Val, pos token.Pos, lit *ast.FuncLit) []Val {
	declSig := sig
	if f := u.eng.findFuncObj(pk, key); f != nil {
		declSig = f.Type().(*types.Signature)
	}
	u.callN[key]++
	k := u.callN[key]
	pre := st.clone()
	env := u.calleeEnv(st, pre, ct, pk, sig, declSig, recv, args, nil)
	if lit != nil {
		// closure: its contract may mention captured variables of the enclosing function
		env.scope = u.info.Scopes[lit.Type]
		env.pos = lit.Body.Lbrace + 1
	}
	u.usedContracts[pk+"."+key] = true
	// in-body assertions attached to this call site
	u.assertArgs = append(recvList(recv), args...)
	u.checkCallAsserts(st, pk, key, k, pos)
	for i, r := range ct.Requires {
		u.checkClause(env, r, "pre@call", fmt.Sprintf("%s#%d.%s", shortKey(key), k, labelOr(r.Label, strconv.Itoa(i+1))), pos, st, false)
	}
	// event counters
	if u.contract != nil {
		for name, callee := range u.contract.Counts {
			if calleeMatches(callee, pk, key) {
				cur, ok := st.ghost["count:"+name]
				if !ok {
					cur = Val{T: "0", Ty: intT, So: "Int"}
				}
				st.ghost["count:"+name] = Val{T: app("+", cur.T, "1"), Ty: intT, So: "Int"}
			}
		}
	}
	// results
	var results []Val
	var resSig *types.Signature = sig
	if ct.Pure && resSig.Results().Len() == 1 {
		vals := append(recvList(recv), args...)
		results = []Val{u.pureApp(pk, key, vals, resSig.Results().At(0).Type(), st)}
	} else {
		for i := 0; i < resSig.Results().Len(); i++ {
			rt := resSig.Results().At(i).Type()
			v := u.mkVal(u.fresh("r_"+shortKey(key), u.sortOf(rt)), rt)
			st.assume(u.typeInv(v))
			results = append(results, v)
		}
	}
	// effects
	if !ct.Pure {
		u.havocModifies(st, pre, ct, env, lit)
	}
	// out-parameters: slices whose elements the callee may overwrite
	postArgs := args
	oldNames := map[string]Val{}
	if len(ct.Writes) > 0 {
		postArgs = append([]Val{}, args...)
		callArgs := u.curCallArgs
		for _, w := range ct.Writes {
			idx := -1
			for i := 0; i < declSig.Params().Len(); i++ {
				if declSig.Params().At(i).Name() == w {
					idx = i
				}
			}
			for i, p := range ct.Params {
				if p.Name == w {
					idx = i
				}
			}
			if idx < 0 || idx >= len(args) {
				u.unsupported(pos, "contract of %s: writes %s: no such parameter", key, w)
			}
			old := args[idx]
			if isInterface(old.Ty) && callArgs != nil && idx < len(callArgs) {
				// a slice passed as `any` (sort.Slice): use the slice itself
				if _, ok := u.typeOf(callArgs[idx]).Underlying().(*types.Slice); ok {
					old = u.eval(st, callArgs[idx])
				}
			}
			if _, ok := old.Ty.Underlying().(*types.Slice); !ok {
				u.unsupported(pos, "contract of %s: writes %s: not a slice", key, w)
			}
			es := u.sortOf(old.Ty.Underlying().(*types.Slice).Elem())
			na := u.fresh("written", "(Array Int "+es+")")
			_, _, ln, isnil := u.sliceParts(old)
			nv := Val{T: u.mkSlice(old.So, na, "0", ln, isnil), Ty: old.Ty, So: old.So}
			postArgs[idx] = nv
			oldNames["old_"+w] = old
			// write back into the caller's variable (x or x[:] of an array x)
			if callArgs != nil && idx < len(callArgs) {
				u.writeBackSlice(st, callArgs[idx], nv, pos)
			}
		}
	}
	post := u.calleeEnv(st, pre, ct, pk, sig, declSig, recv, postArgs, results)
	post.oldNames = map[string]Val{}
	for k, v := range oldNames {
		post.names[k] = v
		post.oldNames[strings.TrimPrefix(k, "old_")] = v
	}
	if lit != nil {
		post.scope = env.scope
		post.pos = env.pos
	}
	for _, e := range ct.Ensures {
		for _, cj := range splitConj(e.Expr) {
			t, err := u.trySpec(post, cj)
			if err != nil {
				if u.contract != nil && u.contract.Sweep {
					// the sweep only loses an assumption
					u.warnings = append(u.warnings, fmt.Sprintf("%s: ensures of %s not usable at this call site (%v): not assumed", u.posStr(pos), key, err))
					continue
				}
				u.unsupported(pos, "contract of %s: ensures %s: %v", key, e.Text, err)
			}
			st.assume(t)
		}
	}
	// `fills b`: the result is append(b, ...) stored in b's spare capacity (h.Sum(arr[:0]) idiom):
	// the array b was sliced from receives the appended elements
	for _, w := range ct.Fills {
		idx := -1
		for i, p := range ct.Params {
			if p.Name == w {
				idx = i
			}
		}
		for i := 0; i < declSig.Params().Len(); i++ {
			if declSig.Params().At(i).Name() == w {
				idx = i
			}
		}
		if idx < 0 || idx >= len(args) || len(results) == 0 || u.curCallArgs == nil || idx >= len(u.curCallArgs) {
			continue
		}
		if se, ok := ast.Unparen(u.curCallArgs[idx]).(*ast.SliceExpr); ok {
			base := u.eval(st, se.X)
			if at, ok := base.Ty.Underlying().(*types.Array); ok {
				hi := strconv.FormatInt(at.Len(), 10)
				if se.High != nil {
					hi = u.eval(st, se.High).T
				}
				rarr, _, rlen, _ := u.sliceParts(results[0])
				_, _, blen, _ := u.sliceParts(args[idx])
				so := u.sortOf(base.Ty)
				na := u.fresh("filled", so)
				u.nfresh++
				i := fmt.Sprintf("fi!%d", u.nfresh)
				// elements hi .. hi+(rlen-blen) come from the result, the rest is unchanged
				st.assume(fmt.Sprintf("(forall ((%s Int)) (! (= (select %s %s) (ite (and (<= %s %s) (< %s (+ %s (- %s %s)))) (select %s (+ %s (- %s %s))) (select %s %s))) :pattern ((select %s %s))))", i, na, i, hi, i, i, hi, rlen, blen, rarr, blen, i, hi, base.T, i, na, i))
				u.assign(st, se.X, Val{T: na, Ty: base.Ty, So: so})
			}
		}
	}
	if ct.Trusted || ct.Extern {
		u.trustedUsed[pk+"."+key] = true
	}
	u.checkAlways(st, fmt.Sprintf("@call %s#%d", shortKey(key), k), pos)
	return results
}

// checkAlways: the `always` clauses of the function under verification must hold after every
// call (the only points at which the modelled external state changes).
func (u *Unit) checkAlways(st *State, where string, pos token.Pos) {
	if u.contract == nil || u.inlineDepth > 0 || len(u.contract.Always) == 0 || u.entry == nil {
		return
	}
	env := u.funcEnvAt(st, pos)
	for i, a := range u.contract.Always {
		u.checkClause(env, a, "always", labelOr(a.Label, fmt.Sprint(i+1))+where, pos, st, true)
	}
}

func labelOr(l, d string) string {
	if l != "" {
		return l
	}
	return d
}

func shortKey(key string) string {
	key = strings.NewReplacer("(", "", ")", "", "*", "").Replace(key)
	return key
}

func calleeMatches(pattern, pk, key string) bool {
	if pattern == key || pattern == shortKey(key) {
		return true
	}
	full := pk + "." + key
	if pattern == full {
		return true
	}
	ps := lastSeg(pk) + "." + shortKey(key)
	return pattern == ps || pattern == lastSeg(pk)+"."+key
}

func (u *Unit) trySpec(env *SpecEnv, e SExpr) (t string, err error) {
	defer func() {
		if r := recover(); r != nil {
			if se, ok := r.(specErr); ok {
				err = fmt.Errorf("%s", se.msg)
				return
			}
			panic(r)
		}
	}()
	return env.evalBool(e), nil
}

// checkClause emits one obligation per top-level conjunct and then assumes it.
func (u *Unit) checkClause(env *SpecEnv, cl *Clause, kind, label string, pos token.Pos, st *State, assumeAfter bool) {
	cjs := splitConj(cl.Expr)
	for i, cj := range cjs {
		t, err := u.trySpec(env, cj)
		if err != nil {
			u.unsupported(pos, "%s [%s] %s: %v", kind, cl.Label, cl.Text, err)
		}
		l := label
		if len(cjs) > 1 {
			l = fmt.Sprintf("%s.%d", label, i+1)
		}
		u.oblige(kind, l, pos, st, t, cj.String())
		if assumeAfter {
			st.assume(t)
		}
	}
}

// havocModifies havocs what the callee's modifies clause allows.
func (u *Unit) havocModifies(st, pre *State, ct *Contract, env *SpecEnv, lit *ast.FuncLit) {
	for _, m := range ct.Modifies {
		u.havocTarget(st, pre, m, env, lit)
	}
}

// A modifies target is one of:
//   heap                     everything
//   x.f                      field f of the object x points to
//   *x                       all fields of the object x points to
//   T.f                      field f of every object of struct type T (T a type name of the package)
//   global.name              package-level variable
//   name                     captured variable of a closure
func (u *Unit) havocTarget(st, pre *State, m string, env *SpecEnv, lit *ast.FuncLit) {
	if m == "heap" {
		u.havocAll(st)
		return
	}
	if strings.HasPrefix(m, "ghost.") {
		key, sort := u.ghostVarKey(env.home, strings.TrimPrefix(m, "ghost."))
		u.heapGet(st, key, sort)
		u.havocHeap(st, key)
		return
	}
	if strings.HasPrefix(m, "global.") {
		name := strings.TrimPrefix(m, "global.")
		home := env.home
		if home != nil {
			if obj, ok := home.Types.Scope().Lookup(name).(*types.Var); ok {
				key := u.globalKey(obj)
				u.heapGet(st, key, u.sortOf(obj.Type()))
				u.havocHeap(st, key)
				return
			}
		}
		u.unsupported(token.NoPos, "modifies %s: unknown global", m)
	}
	e, err := parseSpecExpr(m)
	if err != nil {
		u.unsupported(token.NoPos, "modifies %s: %v", m, err)
	}
	penv := *env
	penv.st = pre
	switch x := e.(type) {
	case *SDeref:
		p := penv.eval(x.X)
		pt, ok := isPointer(p.Ty)
		if !ok {
			u.unsupported(token.NoPos, "modifies %s: not a pointer", m)
		}
		if s, ok := isStructValue(pt.Elem()); ok {
			so := u.sortOf(pt.Elem())
			for i := 0; i < s.NumFields(); i++ {
				f := s.Field(i)
				u.havocAt(st, u.heapKeyField(so, f.Name()), "(Array Int "+u.sortOf(f.Type())+")", p.T)
			}
		} else {
			so := u.sortOf(pt.Elem())
			u.havocAt(st, "H_ptr_"+mangle(so), "(Array Int "+so+")", p.T)
		}
		return
	case *SSel:
		// type-wide with a qualified type: pkg.T.f
		if inner, ok := x.X.(*SSel); ok {
			if id, ok := inner.X.(*SIdent); ok {
				if _, isVal := penv.lookupValue(id.Name); !isVal && penv.importedPkg(id.Name) != nil {
					if ty := u.tryResolveNamed(env.home, id.Name+"."+inner.Name); ty != nil {
						if gk, gs, _, ok := u.ghostFieldKey(types.NewPointer(ty), x.Name); ok {
							u.heapGet(st, gk, gs)
							u.havocHeap(st, gk)
							return
						}
						if s, ok := ty.Underlying().(*types.Struct); ok {
							for i := 0; i < s.NumFields(); i++ {
								if s.Field(i).Name() == x.Name {
									key := u.heapKeyField(u.sortOf(ty), x.Name)
									u.heapGet(st, key, "(Array Int "+u.sortOf(s.Field(i).Type())+")")
									u.havocHeap(st, key)
									return
								}
							}
						}
					}
				}
			}
		}
		// type-wide: T.f
		if id, ok := x.X.(*SIdent); ok && env.home != nil {
			if _, isVal := penv.lookupValue(id.Name); !isVal {
				if tn, ok := env.home.Types.Scope().Lookup(id.Name).(*types.TypeName); ok {
					if gk, gs, _, ok := u.ghostFieldKey(types.NewPointer(tn.Type()), x.Name); ok {
						u.heapGet(st, gk, gs)
						u.havocHeap(st, gk)
						return
					}
					if s, ok := tn.Type().Underlying().(*types.Struct); ok {
						so := u.sortOf(tn.Type())
						for i := 0; i < s.NumFields(); i++ {
							if s.Field(i).Name() == x.Name {
								key := u.heapKeyField(so, x.Name)
								u.heapGet(st, key, "(Array Int "+u.sortOf(s.Field(i).Type())+")")
								u.havocHeap(st, key)
								return
							}
						}
					}
				}
			}
		}
		base := penv.eval(x.X)
		if gk, gs, _, ok := u.ghostFieldKey(base.Ty, x.Name); ok {
			u.havocAt(st, gk, gs, base.T)
			return
		}
		if pt, ok := isPointer(base.Ty); ok {
			s := structOf(base.Ty)
			for i := 0; i < s.NumFields(); i++ {
				if s.Field(i).Name() == x.Name {
					u.havocAt(st, u.heapKeyField(u.sortOf(pt.Elem()), x.Name), "(Array Int "+u.sortOf(s.Field(i).Type())+")", base.T)
					return
				}
			}
		}
		u.unsupported(token.NoPos, "modifies %s: unsupported target", m)
	case *SIdent:
		// captured variable (closures) — havoc the caller's variable
		if env.scope != nil {
			if _, obj := env.scope.LookupParent(x.Name, env.pos); obj != nil {
				if vo, ok := obj.(*types.Var); ok {
					v := u.mkVal(u.fresh(vo.Name(), u.sortOf(vo.Type())), vo.Type())
					st.assume(u.typeInv(v))
					st.vars[vo] = v
					return
				}
			}
		}
		u.unsupported(token.NoPos, "modifies %s: unknown variable", m)
	}
	u.unsupported(token.NoPos, "modifies %s: unsupported target", m)
}

// havocAt replaces heap[key] by a fresh array equal to the old one except at ref.
func (u *Unit) havocAt(st *State, key, sort, ref string) {
	old := u.heapGet(st, key, sort)
	n := u.fresh(key, sort)
	_, vs := arraySorts(sort)
	val := u.fresh(key+"_v", vs)
	st.assume(sEq(n, app("store", old, ref, val)))
	st.heap[key] = n
}

// ---- inlining ----

func (u *Unit) canInline(decl *ast.FuncDecl, pk, key string) bool {
	if decl.Body == nil || u.inlineDepth > 3 {
		return false
	}
	if u.contract != nil && u.contract.NoInline {
		return false
	}
	if pk+"."+key == u.curFnKey {
		return false
	}
	n := 0
	ok := true
	ast.Inspect(decl.Body, func(nd ast.Node) bool {
		switch nd.(type) {
		case *ast.ForStmt, *ast.RangeStmt, *ast.GoStmt, *ast.DeferStmt, *ast.SelectStmt, *ast.FuncLit:
			ok = false
		case ast.Stmt:
			n++
		}
		return ok
	})
	return ok && n <= 40
}

func (u *Unit) inlineDecl(st *State, pk string, decl *ast.FuncDecl, recv *Val, args []Val, c *ast.CallExpr) []Val {
	p := u.eng.pkgs[pk]
	obj := p.TypesInfo.Defs[decl.Name].(*types.Func)
	sig := obj.Type().(*types.Signature)
	saveInfo, savePkg := u.info, u.pkg
	u.info, u.pkg = p.TypesInfo, p
	defer func() { u.info, u.pkg = saveInfo, savePkg }()
	if recv != nil && sig.Recv() != nil {
		st.vars[sig.Recv()] = *recv
	}
	for i := 0; i < sig.Params().Len(); i++ {
		if i < len(args) {
			st.vars[sig.Params().At(i)] = args[i]
		}
	}
	return u.inlineBody(st, decl.Body, sig, c.Pos())
}

func (u *Unit) inlineLit(st *State, lit *ast.FuncLit, args []Val, c *ast.CallExpr) []Val {
	sig := u.typeOf(lit).(*types.Signature)
	for i := 0; i < sig.Params().Len(); i++ {
		if i < len(args) {
			st.vars[sig.Params().At(i)] = args[i]
		}
	}
	if u.inlineDepth > 3 {
		return u.callUnknown(st, "recursive closure", sig, args, c.Pos(), nil)
	}
	return u.inlineBody(st, lit.Body, sig, c.Pos())
}

func (u *Unit) callLiteral(st *State, lit *ast.FuncLit, c *ast.CallExpr) []Val {
	sig := u.typeOf(lit).(*types.Signature)
	args := u.evalArgs(st, c, sig)
	return u.inlineLit(st, lit, args, c)
}

// inlineBody executes a callee body in place. The state st is updated to the join of all
// return exits.
func (u *Unit) inlineBody(st *State, body *ast.BlockStmt, sig *types.Signature, pos token.Pos) []Val {
	u.inlineDepth++
	defer func() { u.inlineDepth-- }()
	saveResults := u.results
	u.results = nil
	for i := 0; i < sig.Results().Len(); i++ {
		r := sig.Results().At(i)
		u.results = append(u.results, r)
		if r.Name() != "" {
			st.vars[r] = u.zero(r.Type())
		}
	}
	defer func() { u.results = saveResults }()
	fr := u.pushFrame(frFunc)
	start := st.clone()
	ft := u.execBlock(start, body.List)
	u.popFrame()
	var arms []*State
	var armRes [][]Val
	if ft != nil {
		var rs []Val
		for _, r := range u.results {
			if v, ok := ft.vars[r]; ok {
				rs = append(rs, v)
			} else {
				rs = append(rs, u.zero(r.Type()))
			}
		}
		arms = append(arms, ft)
		armRes = append(armRes, rs)
	}
	for _, ex := range fr.exits {
		if ex.kind != exReturn {
			u.unsupported(pos, "break/continue escaping inlined function")
		}
		arms = append(arms, ex.st)
		armRes = append(armRes, ex.results)
	}
	if len(arms) == 0 {
		// callee never returns
		st.assume("false")
		var rs []Val
		for i := 0; i < sig.Results().Len(); i++ {
			rs = append(rs, u.zero(sig.Results().At(i).Type()))
		}
		return rs
	}
	joined, res := u.joinN(st, arms, armRes)
	*st = *joined
	return res
}

// joinN joins several states that extend base; extra gives per-arm value tuples to merge.
func (u *Unit) joinN(base *State, arms []*State, extra [][]Val) (*State, []Val) {
	if len(arms) == 1 {
		var ex []Val
		if extra != nil {
			ex = extra[0]
		}
		return arms[0], ex
	}
	epoch := u.syncEpochs(arms)
	out := base.clone()
	out.epoch = epoch
	nb := len(base.hyps)
	paths := make([]string, len(arms))
	for i := range arms {
		paths[i] = u.fresh("path", "Bool")
	}
	out.assume(sOr(paths...))
	for i, a := range arms {
		for _, h := range a.hyps[nb:] {
			out.assume(sImp(paths[i], h))
		}
	}
	pick := func(get func(s *State) (string, bool), sort string, dflt string) string {
		// ite chain over paths
		var t string
		first := true
		for i := len(arms) - 1; i >= 0; i-- {
			v, ok := get(arms[i])
			if !ok {
				v = dflt
			}
			if first {
				t = v
				first = false
			} else {
				t = sIte(paths[i], v, t)
			}
		}
		return t
	}
	// variables
	keys := map[types.Object]bool{}
	for _, a := range arms {
		for k := range a.vars {
			keys[k] = true
		}
	}
	for k := range keys {
		bv, inBase := base.vars[k]
		same := true
		var first Val
		have := false
		for _, a := range arms {
			v, ok := a.vars[k]
			if !ok {
				same = false
				break
			}
			if !have {
				first, have = v, true
			} else if v.T != first.T {
				same = false
			}
		}
		if same && have {
			out.vars[k] = first
			continue
		}
		if !inBase {
			// declared inside the arms: out of scope afterwards unless all arms define it
			allHave := true
			for _, a := range arms {
				if _, ok := a.vars[k]; !ok {
					allHave = false
				}
			}
			if !allHave {
				continue
			}
			bv = first
		}
		t := pick(func(s *State) (string, bool) { v, ok := s.vars[k]; return v.T, ok }, bv.So, bv.T)
		nv := Val{T: t, Ty: bv.Ty, So: bv.So}
		u.bind(out, k, nv)
	}
	// heap
	hk := map[string]bool{}
	for _, a := range arms {
		for k := range a.heap {
			hk[k] = true
		}
	}
	for k := range hk {
		for _, a := range arms {
			if _, ok := a.heap[k]; !ok {
				u.heapGet(a, k, u.heapSorts[k])
			}
		}
		t := pick(func(s *State) (string, bool) { v, ok := s.heap[k]; return v, ok }, "", "")
		delete(out.heap, k)
		out.heap[k] = t
		if strings.HasPrefix(t, "(ite ") {
			n := u.fresh(k, u.heapSorts[k])
			out.assume(sEq(n, t))
			out.heap[k] = n
		}
	}
	// ghost
	gk := map[string]bool{}
	for _, a := range arms {
		for k := range a.ghost {
			gk[k] = true
		}
	}
	for k := range gk {
		var any Val
		for _, a := range arms {
			if v, ok := a.ghost[k]; ok {
				any = v
			}
		}
		dflt, ok := base.ghost[k]
		if !ok {
			if strings.HasPrefix(k, "count:") {
				dflt = Val{T: "0", Ty: intT, So: "Int"}
			} else {
				dflt = any
			}
		}
		t := pick(func(s *State) (string, bool) { v, ok := s.ghost[k]; return v.T, ok }, "", dflt.T)
		out.ghost[k] = Val{T: t, Ty: any.Ty, So: any.So}
	}
	var res []Val
	if extra != nil && len(extra[0]) > 0 {
		for j := range extra[0] {
			var t string
			for i := len(arms) - 1; i >= 0; i-- {
				if i == len(arms)-1 {
					t = extra[i][j].T
				} else {
					t = sIte(paths[i], extra[i][j].T, t)
				}
			}
			res = append(res, Val{T: t, Ty: extra[0][j].Ty, So: extra[0][j].So})
		}
	}
	return out, res
}

// writeBackSlice stores the new contents of an out-parameter slice into the expression it was
// taken from: a slice variable/field, or x[:] / x[a:b] of an array or slice x.
func (u *Unit) writeBackSlice(st *State, arg ast.Expr, nv Val, pos token.Pos) {
	arg = ast.Unparen(arg)
	switch x := arg.(type) {
	case *ast.SliceExpr:
		base := u.eval(st, x.X)
		lo := "0"
		if x.Low != nil {
			lo = u.eval(st, x.Low).T
		}
		narr, _, nlen, _ := u.sliceParts(nv)
		u.nfresh++
		i := fmt.Sprintf("wi!%d", u.nfresh)
		switch bt := base.Ty.Underlying().(type) {
		case *types.Array:
			so := u.sortOf(base.Ty)
			na := u.fresh("arr", so)
			st.assume(fmt.Sprintf("(forall ((%s Int)) (! (= (select %s %s) (ite (and (<= %s %s) (< %s (+ %s %s))) (select %s (- %s %s)) (select %s %s))) :pattern ((select %s %s))))", i, na, i, lo, i, i, lo, nlen, narr, i, lo, base.T, i, na, i))
			u.assign(st, x.X, Val{T: na, Ty: base.Ty, So: so})
			_ = bt
		case *types.Slice:
			barr, _, bln, bnil := u.sliceParts(base)
			na := u.fresh("arr", "(Array Int "+u.sortOf(bt.Elem())+")")
			st.assume(fmt.Sprintf("(forall ((%s Int)) (! (= (select %s %s) (ite (and (<= %s %s) (< %s (+ %s %s))) (select %s (- %s %s)) (select %s %s))) :pattern ((select %s %s))))", i, na, i, lo, i, i, lo, nlen, narr, i, lo, barr, i, na, i))
			u.assign(st, x.X, Val{T: u.mkSlice(base.So, na, "0", bln, bnil), Ty: base.Ty, So: base.So})
		default:
			u.unsupported(pos, "out-parameter taken from %v", base.Ty)
		}
	case *ast.Ident, *ast.SelectorExpr:
		u.assign(st, arg, nv)
	default:
		u.warnings = append(u.warnings, u.posStr(pos)+": out-parameter argument is not addressable; effects on it are lost")
	}
}

func (u *Unit) tryResolveNamed(home *packages.Package, name string) (t types.Type) {
	defer func() {
		if r := recover(); r != nil {
			t = nil
		}
	}()
	ty, _ := u.resolveType(home, &STypeExpr{Kind: "name", Name: name})
	return ty
}

// ghostVarKey resolves "name" or "pkg.name" of a ghostvar to its heap key.
func (u *Unit) ghostVarKey(home *packages.Package, name string) (string, string) {
	pkPath := ""
	if home != nil {
		pkPath = home.PkgPath
	}
	if i := strings.LastIndex(name, "."); i >= 0 {
		if p := (&SpecEnv{u: u, home: home}).importedPkg(name[:i]); p != nil {
			pkPath = p.Path()
		}
		name = name[i+1:]
	}
	gv, ok := u.eng.ghostVars[pkPath+"."+name]
	if !ok {
		panic(specErr{"unknown ghostvar " + name})
	}
	_, so := u.resolveType(u.eng.pkgs[pkPath], gv.T)
	return "GV_" + mangle(lastSeg(pkPath)) + "_" + mangle(name), so
}

// checkCallAsserts: `at call <callee>#k assert ...` clauses are checked (and then assumed) just
// before the k-th call of the callee.
func (u *Unit) checkCallAsserts(st *State, pk, key string, k int, pos token.Pos) {
	if os.Getenv("GOVC_DEBUG") != "" {
		fmt.Fprintf(os.Stderr, "callassert? %s.%s #%d depth=%d at %s\n", pk, key, k, u.inlineDepth, u.posStr(pos))
	}
	if u.contract == nil || u.inlineDepth > 0 {
		return
	}
	for _, ca := range u.contract.CallAsserts {
		match := false
		if ca.On != "" {
			// addressed by the text of the source line (robust against renumbering)
			lineOK := strings.Contains(u.rawLine(pos), ca.On)
			if strings.HasPrefix(ca.On, "^") {
				// "^text": the whole (trimmed) line is text
				lineOK = strings.TrimSpace(u.rawLine(pos)) == ca.On[1:]
			}
			if calleeMatches(ca.Callee, pk, key) && lineOK {
				// K counts distinct call sites on matching lines, in order of first encounter
				// (a site is visited more than once: loop discovery, then the real pass)
				rank := 0
				for i, p := range u.onPos[ca] {
					if p == pos {
						rank = i + 1
					}
				}
				if rank == 0 {
					u.onPos[ca] = append(u.onPos[ca], pos)
					rank = len(u.onPos[ca])
				}
				match = ca.K == 0 || ca.K == rank
			}
		} else {
			match = calleeMatches(ca.Callee, pk, key) && ca.K == k
		}
		if match {
			u.matchedCA[ca] = true
			aenv := u.funcEnvAt(st, pos)
			// the actual arguments of the call: arg0 is the receiver of a method call (or the
			// first argument of a function), arg1, arg2, ... follow
			for i, a := range u.assertArgs {
				aenv.names[fmt.Sprintf("arg%d", i)] = a
			}
			for _, cl := range ca.Clauses {
				nm := fmt.Sprintf("%s@call %s#%d", labelOr(cl.Label, "a"), shortKey(key), k)
				if ca.On != "" {
					nm = fmt.Sprintf("%s@call %s", labelOr(cl.Label, "a"), shortKey(key))
				}
				u.checkClause(aenv, cl, "assert", nm, pos, st, true)
			}
		}
	}
}
