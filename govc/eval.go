package main

// Evaluation of Go expressions of the real source into SMT terms.

import (
	"hash/fnv"
	"fmt"
	"go/ast"
	"go/constant"
	"go/token"
	"go/types"
	"strconv"
	"strings"
)

func (u *Unit) sortOf(t types.Type) string { return u.sc.sortOf(t) }

func (u *Unit) mkVal(t string, ty types.Type) Val {
	return Val{T: t, Ty: ty, So: u.sortOf(ty)}
}

func isInterface(t types.Type) bool {
	if t == nil {
		return false
	}
	if _, ok := types.Unalias(t).(*types.TypeParam); ok {
		return false
	}
	_, ok := t.Underlying().(*types.Interface)
	return ok
}

func isPointer(t types.Type) (*types.Pointer, bool) {
	p, ok := t.Underlying().(*types.Pointer)
	return p, ok
}

func isUntypedNil(t types.Type) bool {
	b, ok := t.(*types.Basic)
	return ok && b.Kind() == types.UntypedNil
}

// zero value of a Go type
func (u *Unit) zero(t types.Type) Val {
	so := u.sortOf(t)
	return Val{T: u.zeroOfSort(t, so), Ty: t, So: so}
}

func (u *Unit) zeroOfSort(t types.Type, so string) string {
	t = types.Unalias(t)
	if _, ok := t.(*types.TypeParam); ok {
		return u.d.constant("zero_"+so, so)
	}
	switch ut := t.Underlying().(type) {
	case *types.Basic:
		switch so {
		case "Bool":
			return "false"
		case "Int":
			return "0"
		case "String":
			return `""`
		default:
			return u.d.constant("zero_"+mangle(so), so)
		}
	case *types.Pointer, *types.Interface, *types.Signature, *types.Chan:
		return "0"
	case *types.Slice:
		es := u.sortOf(ut.Elem())
		ea := u.d.constant("emptyarr_"+mangle(es), "(Array Int "+es+")")
		return app("mk_"+so, ea, "0", "true")
	case *types.Array:
		return u.zeroArray(u.sortOf(ut.Elem()), u.zero(ut.Elem()).T)
	case *types.Map:
		ks, vs := u.sortOf(ut.Key()), u.sortOf(ut.Elem())
		ea := u.d.constant("emptymap_"+mangle(ks)+"_"+mangle(vs), "(Array "+ks+" "+vs+")")
		return app("mk_"+so, fmt.Sprintf("((as const (Array %s Bool)) false)", ks), ea, "0", "true")
	case *types.Struct:
		var fs []string
		for i := 0; i < ut.NumFields(); i++ {
			fs = append(fs, u.zero(ut.Field(i).Type()).T)
		}
		return app("mk_"+so, fs...)
	}
	return "0"
}

// convert applies Go's implicit/explicit value conversion between types where the
// representation changes (boxing into interfaces, nil).
func (u *Unit) convert(v Val, to types.Type) Val {
	if to == nil {
		return v
	}
	if v.Ty != nil && isUntypedNil(v.Ty) {
		return u.zero(to)
	}
	if isInterface(to) {
		if v.Ty == nil || isInterface(v.Ty) {
			return Val{T: v.T, Ty: to, So: "Int"}
		}
		box, _, _ := u.sc.boxFns(v.Ty)
		return Val{T: app(box, v.T), Ty: to, So: "Int"}
	}
	so := u.sortOf(to)
	if v.So != "" && v.So != so {
		// representation changes we do not model
		return Val{T: u.uninterp("conv_"+mangle(v.So)+"_to_"+mangle(so), []string{v.So}, so, v.T), Ty: to, So: so}
	}
	return Val{T: v.T, Ty: to, So: so}
}

func (u *Unit) uninterp(name string, argSorts []string, res string, args ...string) string {
	u.d.fun(name, argSorts, res)
	return app(name, args...)
}

func (u *Unit) constVal(cv constant.Value, t types.Type) Val {
	if t == nil {
		t = types.Typ[types.Int]
	}
	so := u.sortOf(t)
	if isInterface(t) {
		// constant converted to interface: box with default type
		var dt types.Type
		switch cv.Kind() {
		case constant.Bool:
			dt = types.Typ[types.Bool]
		case constant.String:
			dt = types.Typ[types.String]
		case constant.Int:
			dt = types.Typ[types.Int]
		default:
			dt = types.Typ[types.Float64]
		}
		return u.convert(u.constVal(cv, dt), t)
	}
	switch cv.Kind() {
	case constant.Bool:
		return Val{T: strconv.FormatBool(constant.BoolVal(cv)), Ty: t, So: "Bool"}
	case constant.String:
		return Val{T: sStr(constant.StringVal(cv)), Ty: t, So: "String"}
	case constant.Int:
		if so == "Int" {
			return Val{T: sIntStr(cv.ExactString()), Ty: t, So: "Int"}
		}
	}
	// floats etc: uninterpreted constant named by its value
	n := "fconst_" + mangle(cv.ExactString())
	return Val{T: u.d.constant(n, so), Ty: t, So: so}
}

// ---- slices ----

func (u *Unit) sliceParts(v Val) (arr, off, ln, isnil string) {
	return app("sarr_"+v.So, v.T), "0", app("slen_"+v.So, v.T), app("snil_"+v.So, v.T)
}

func (u *Unit) sliceAt(v Val, i string) string {
	arr, _, _, _ := u.sliceParts(v)
	return app("select", arr, i)
}

func sAdd(a, b string) string {
	if a == "0" {
		return b
	}
	if b == "0" {
		return a
	}
	return app("+", a, b)
}

func sSub(a, b string) string {
	if b == "0" {
		return a
	}
	return app("-", a, b)
}

func (u *Unit) mkSlice(so, arr, off, ln, isnil string) string {
	if off != "0" {
		panic("mkSlice with offset")
	}
	return app("mk_"+so, arr, ln, isnil)
}

// subSlice builds s[lo:hi]. With lo == 0 the array is shared; otherwise an uninterpreted
// function with shifting axioms is used (no arithmetic inside quantifier triggers).
func (u *Unit) subSlice(v Val, lo, hi string) string {
	arr, _, _, _ := u.sliceParts(v)
	if lo == "0" {
		return app("mk_"+v.So, arr, hi, "false")
	}
	fn := "subslice_" + v.So
	if u.d.add("f:"+fn, fmt.Sprintf("(declare-fun %s (%s Int Int) %s)", fn, v.So, v.So)) {
		u.d.axiom(fn+".len", fmt.Sprintf("(forall ((s %s) (a Int) (b Int)) (! (and (= (slen_%s (%s s a b)) (- b a)) (not (snil_%s (%s s a b)))) :pattern ((%s s a b))))", v.So, v.So, fn, v.So, fn, fn))
		u.d.axiom(fn+".elem", fmt.Sprintf("(forall ((s %s) (a Int) (b Int) (i Int)) (! (= (select (sarr_%s (%s s a b)) i) (select (sarr_%s s) (+ a i))) :pattern ((select (sarr_%s (%s s a b)) i))))", v.So, v.So, fn, v.So, v.So, fn))
		u.d.axiom(fn+".elemrev", fmt.Sprintf("(forall ((s %s) (a Int) (b Int) (k Int)) (! (= (select (sarr_%s (%s s a b)) (- k a)) (select (sarr_%s s) k)) :pattern ((%s s a b) (select (sarr_%s s) k))))", v.So, v.So, fn, v.So, fn, v.So))
	}
	return app(fn, v.T, lo, hi)
}

// normSlice introduces a fresh constant for a slice value together with its well-formedness facts.
func (u *Unit) sliceWF(v Val) string {
	_, _, ln, isnil := u.sliceParts(v)
	return sAnd(app(">=", ln, "0"), sImp(isnil, sEq(ln, "0")))
}

func (u *Unit) mapWF(v Val) string {
	card := app("mcard_"+v.So, v.T)
	dom := app("mdom_"+v.So, v.T)
	ks, _ := arraySortsOfMap(v.So, u)
	empty := fmt.Sprintf("((as const (Array %s Bool)) false)", ks)
	return sAnd(app(">=", card, "0"), sEq(sEq(card, "0"), sEq(dom, empty)), sImp(app("mnil_"+v.So, v.T), sEq(card, "0")))
}

// arraySortsOfMap returns the key and value sorts of a map sort (recorded at declaration).
func arraySortsOfMap(mapSort string, u *Unit) (string, string) {
	if kv, ok := u.sc.mapKV[mapSort]; ok {
		return kv[0], kv[1]
	}
	return "Int", "Int"
}

// typeInv returns the type invariant of a value (well-formedness facts assumed for inputs).
func (u *Unit) typeInv(v Val) string {
	if v.Ty == nil {
		return "true"
	}
	switch t := v.Ty.Underlying().(type) {
	case *types.Slice:
		return u.sliceWF(v)
	case *types.Map:
		return u.mapWF(v)
	case *types.Basic:
		if t.Info()&types.IsUnsigned != 0 {
			hi := unsignedMax(t.Kind())
			if hi != "" {
				return sAnd(app(">=", v.T, "0"), app("<=", v.T, hi))
			}
			return app(">=", v.T, "0")
		}
		switch t.Kind() {
		case types.Int8:
			return sAnd(app(">=", v.T, "(- 128)"), app("<=", v.T, "127"))
		case types.Int16:
			return sAnd(app(">=", v.T, "(- 32768)"), app("<=", v.T, "32767"))
		case types.Int32:
			return sAnd(app(">=", v.T, "(- 2147483648)"), app("<=", v.T, "2147483647"))
		}
	case *types.Array:
		// arrays of scalars are canonical: zero outside their bounds, so that SMT array equality
		// coincides with Go's element-wise comparison
		if eb, ok := t.Elem().Underlying().(*types.Basic); ok && eb.Info()&(types.IsInteger|types.IsBoolean) != 0 {
			z := "0"
			if eb.Info()&types.IsBoolean != 0 {
				z = "false"
			}
			u.nfresh++
			i := fmt.Sprintf("ti!%d", u.nfresh)
			return fmt.Sprintf("(forall ((%s Int)) (! (=> (or (< %s 0) (>= %s %d)) (= (select %s %s) %s)) :pattern ((select %s %s))))", i, i, i, t.Len(), v.T, i, z, v.T, i)
		}
	case *types.Struct:
		var cs []string
		for i := 0; i < t.NumFields(); i++ {
			f := t.Field(i)
			if f.Name() == "_" {
				continue
			}
			fv := Val{T: app(fieldSel(v.So, f.Name()), v.T), Ty: f.Type(), So: u.sortOf(f.Type())}
			cs = append(cs, u.typeInv(fv))
		}
		return sAnd(cs...)
	case *types.Pointer, *types.Interface:
		return "true"
	}
	return "true"
}

func unsignedMax(k types.BasicKind) string {
	switch k {
	case types.Uint8:
		return "255"
	case types.Uint16:
		return "65535"
	case types.Uint32:
		return "4294967295"
	case types.Uint64, types.Uint, types.Uintptr:
		return "18446744073709551615"
	}
	return ""
}

// ---- evaluation ----

func (u *Unit) typeOf(e ast.Expr) types.Type {
	if tv, ok := u.info.Types[e]; ok && tv.Type != nil {
		return tv.Type
	}
	if id, ok := e.(*ast.Ident); ok {
		if o := u.info.ObjectOf(id); o != nil {
			return o.Type()
		}
	}
	return nil
}

func (u *Unit) eval(st *State, e ast.Expr) Val {
	if tv, ok := u.info.Types[e]; ok && tv.Value != nil {
		return u.constVal(tv.Value, tv.Type)
	}
	switch x := e.(type) {
	case *ast.ParenExpr:
		return u.eval(st, x.X)
	case *ast.Ident:
		return u.evalIdent(st, x)
	case *ast.BasicLit:
		u.unsupported(x.Pos(), "literal without constant value")
	case *ast.BinaryExpr:
		return u.evalBinary(st, x)
	case *ast.UnaryExpr:
		return u.evalUnary(st, x)
	case *ast.StarExpr:
		if al, ok := u.aliasOf(x.X); ok {
			return u.aliasRead(st, al, x.Pos())
		}
		p := u.eval(st, x.X)
		return u.deref(st, p, x.Pos())
	case *ast.SelectorExpr:
		return u.evalSelector(st, x)
	case *ast.IndexExpr:
		return u.evalIndex(st, x)
	case *ast.SliceExpr:
		return u.evalSliceExpr(st, x)
	case *ast.CallExpr:
		rs := u.call(st, x)
		if len(rs) != 1 {
			u.unsupported(x.Pos(), "call with %d results used as value", len(rs))
		}
		return rs[0]
	case *ast.CompositeLit:
		return u.evalCompositeLit(st, x, u.typeOf(x))
	case *ast.TypeAssertExpr:
		v, _ := u.typeAssert(st, x, false)
		return v
	case *ast.FuncLit:
		id := u.fresh("closure", "Int")
		st.assume(app(">", id, "0"))
		u.literalValue(st, x, id)
		return Val{T: id, Ty: u.typeOf(x), So: "Int"}
	case *ast.KeyValueExpr:
		u.unsupported(x.Pos(), "key-value outside literal")
	}
	u.unsupported(e.Pos(), "expression %T", e)
	return Val{}
}

func (u *Unit) globalKey(obj types.Object) string {
	return "G_" + mangle(obj.Pkg().Name()) + "_" + mangle(obj.Name())
}

func (u *Unit) evalIdent(st *State, id *ast.Ident) Val {
	obj := u.info.ObjectOf(id)
	switch o := obj.(type) {
	case *types.Nil:
		return Val{T: "0", Ty: types.Typ[types.UntypedNil], So: "Int"}
	case *types.Const:
		return u.constVal(o.Val(), o.Type())
	case *types.Var:
		if _, ok := u.elemAlias[o]; ok {
			u.unsupported(id.Pos(), "pointer to slice element %s used as a value", o.Name())
		}
		if cell, ok := st.ghost["cell:"+objKey(o)]; ok {
			// the variable's address was taken: its value lives in a heap cell
			return u.deref(st, Val{T: cell.T, Ty: types.NewPointer(o.Type()), So: "Int"}, token.NoPos)
		}
		if v, ok := st.vars[o]; ok {
			u.closureMeaning(st, o, v)
			return v
		}
		if o.Pkg() != nil && o.Parent() == o.Pkg().Scope() {
			return u.readGlobal(st, o)
		}
		// variable captured from an enclosing function or not yet bound: treat as unknown input
		v := u.mkVal(u.fresh(o.Name(), u.sortOf(o.Type())), o.Type())
		u.warnings = append(u.warnings, fmt.Sprintf("%s: variable %s read before binding (treated as arbitrary)", u.posStr(id.Pos()), o.Name()))
		st.vars[o] = v
		u.closureMeaning(st, o, v)
		return v
	case *types.Func:
		// function value
		pk, key := funcKey(o)
		n := "fn_" + mangle(pk) + "_" + mangle(key)
		u.d.constant(n, "Int")
		u.d.axiom("fnnonnil."+n, app(">", n, "0"))
		return Val{T: n, Ty: o.Type(), So: "Int"}
	}
	u.unsupported(id.Pos(), "identifier %s (%T)", id.Name, obj)
	return Val{}
}

// readGlobal reads a package-level variable. Read-only tables with composite-literal
// initialisers are expanded into their values.
func (u *Unit) readGlobal(st *State, o *types.Var) Val {
	key := u.globalKey(o)
	so := u.sortOf(o.Type())
	if tbl, ok := u.eng.constTable(u, o); ok {
		return tbl
	}
	if u.eng.immutable[o.Pkg().Path()+"."+o.Name()] {
		return Val{T: u.d.constant("GI_"+mangle(o.Pkg().Name())+"_"+mangle(o.Name()), so), Ty: o.Type(), So: so}
	}
	return Val{T: u.heapGet(st, key, so), Ty: o.Type(), So: so}
}

func (u *Unit) evalCond(st *State, e ast.Expr) string {
	v := u.eval(st, e)
	return v.T
}

func isStringType(t types.Type) bool {
	b, ok := t.Underlying().(*types.Basic)
	return ok && b.Info()&types.IsString != 0
}

func (u *Unit) evalBinary(st *State, x *ast.BinaryExpr) Val {
	rt := u.typeOf(x)
	switch x.Op {
	case token.LAND:
		a := u.eval(st, x.X)
		st2 := st.clone()
		st2.assume(a.T)
		b := u.evalSub(st, st2, x.Y)
		return Val{T: sAnd(a.T, b.T), Ty: rt, So: "Bool"}
	case token.LOR:
		a := u.eval(st, x.X)
		st2 := st.clone()
		st2.assume(sNot(a.T))
		b := u.evalSub(st, st2, x.Y)
		return Val{T: sOr(a.T, b.T), Ty: rt, So: "Bool"}
	}
	a := u.eval(st, x.X)
	b := u.eval(st, x.Y)
	switch x.Op {
	case token.EQL, token.NEQ:
		t := u.equal(st, a, b, x.Pos())
		if x.Op == token.NEQ {
			t = sNot(t)
		}
		return Val{T: t, Ty: rt, So: "Bool"}
	case token.LSS, token.LEQ, token.GTR, token.GEQ:
		op := map[token.Token]string{token.LSS: "<", token.LEQ: "<=", token.GTR: ">", token.GEQ: ">="}[x.Op]
		if a.So == "String" {
			switch x.Op {
			case token.LSS:
				return Val{T: app("str.<", a.T, b.T), Ty: rt, So: "Bool"}
			case token.LEQ:
				return Val{T: app("str.<=", a.T, b.T), Ty: rt, So: "Bool"}
			case token.GTR:
				return Val{T: app("str.<", b.T, a.T), Ty: rt, So: "Bool"}
			default:
				return Val{T: app("str.<=", b.T, a.T), Ty: rt, So: "Bool"}
			}
		}
		if a.So != "Int" {
			return Val{T: u.uninterp("cmp_"+mangle(op)+"_"+mangle(a.So), []string{a.So, b.So}, "Bool", a.T, b.T), Ty: rt, So: "Bool"}
		}
		return Val{T: app(op, a.T, b.T), Ty: rt, So: "Bool"}
	}
	return u.arith(st, x.Op, a, b, rt, x.Pos())
}

// evalSub evaluates e under the hypotheses of st2 (for short-circuit operators) while
// keeping side effects (heap, hyps about fresh values) in st.
func (u *Unit) evalSub(st, st2 *State, e ast.Expr) Val {
	n := len(st2.hyps)
	base := len(st.hyps)
	v := u.eval(st2, e)
	// propagate new hypotheses (guarded by the branch condition) and state changes
	guard := st2.hyps[base]
	for _, h := range st2.hyps[n:] {
		st.assume(sImp(guard, h))
	}
	for k, val := range st2.heap {
		if st.heap[k] != val {
			if old, ok := st.heap[k]; ok {
				st.heap[k] = sIte(guard, val, old)
			} else {
				st.heap[k] = val
			}
		}
	}
	for k, val := range st2.ghost {
		if old, ok := st.ghost[k]; !ok || old.T != val.T {
			if ok {
				val.T = sIte(guard, val.T, old.T)
			}
			st.ghost[k] = val
		}
	}
	return v
}

func (u *Unit) arith(st *State, op token.Token, a, b Val, rt types.Type, pos token.Pos) Val {
	so := a.So
	if rt == nil {
		rt = a.Ty
	}
	if so == "String" && op == token.ADD {
		return Val{T: app("str.++", a.T, b.T), Ty: rt, So: "String"}
	}
	if so != "Int" {
		name := "op_" + mangle(op.String()) + "_" + mangle(so)
		return Val{T: u.uninterp(name, []string{a.So, b.So}, so, a.T, b.T), Ty: rt, So: so}
	}
	var t string
	switch op {
	case token.ADD:
		t = app("+", a.T, b.T)
	case token.SUB:
		t = app("-", a.T, b.T)
	case token.MUL:
		t = app("*", a.T, b.T)
	case token.QUO:
		u.safe("div", pos, st, sNot(sEq(b.T, "0")), "divisor != 0")
		t = app("godiv", a.T, b.T)
	case token.REM:
		u.safe("div", pos, st, sNot(sEq(b.T, "0")), "divisor != 0")
		t = app("gomod", a.T, b.T)
	case token.SHL:
		// x << n == x * 2^n (mathematical integers; overflow not modelled)
		u.safe("shift", pos, st, app(">=", b.T, "0"), "shift count >= 0")
		if isLit(b.T) {
			n, _ := strconv.Atoi(b.T)
			if n < 63 {
				t = app("*", a.T, strconv.FormatInt(1<<uint(n), 10))
				break
			}
		}
		u.d.declarePow2()
		u.safe("shift", pos, st, app("<", b.T, "64"), "shift count < 64 (a larger count shifts everything out)")
		if a.T == "1" {
			t = app("pow2", b.T)
		} else {
			t = app("*", a.T, app("pow2", b.T))
		}
	case token.SHR:
		u.safe("shift", pos, st, app(">=", b.T, "0"), "shift count >= 0")
		if isLit(b.T) {
			n, _ := strconv.Atoi(b.T)
			if n < 63 {
				t = app("div", a.T, strconv.FormatInt(1<<uint(n), 10))
				break
			}
		}
		u.d.declarePow2()
		t = app("div", a.T, app("pow2", b.T))
	case token.AND, token.OR, token.XOR, token.AND_NOT:
		name := map[token.Token]string{token.AND: "bitand", token.OR: "bitor", token.XOR: "bitxor", token.AND_NOT: "bitandnot"}[op]
		u.declareBitops()
		u.bitLiteral(a.T)
		u.bitLiteral(b.T)
		t = app(name, pow2Lit(a.T), pow2Lit(b.T))
	default:
		u.unsupported(pos, "operator %s", op)
	}
	return Val{T: t, Ty: rt, So: "Int"}
}

func isLit(s string) bool {
	if s == "" {
		return false
	}
	for _, c := range s {
		if c < '0' || c > '9' {
			return false
		}
	}
	return true
}

// bit operations on mathematical integers: uninterpreted, with the set-like axioms used by
// bit masks (m | 1<<i, m & (1<<i), m &^ (1<<i)) over a `bit(m,i)` predicate.
func (u *Unit) declareBitops() {
	u.d.declarePow2()
	if !u.d.add("f:bitand", "(declare-fun bitand (Int Int) Int)") {
		return
	}
	u.d.add("f:bitor", "(declare-fun bitor (Int Int) Int)")
	u.d.add("f:bitxor", "(declare-fun bitxor (Int Int) Int)")
	u.d.add("f:bitandnot", "(declare-fun bitandnot (Int Int) Int)")
	u.d.add("f:bit", "(declare-fun bit (Int Int) Bool)")
	ax := func(n, t string) { u.d.axiom("bit."+n, t) }
	ax("or", "(forall ((a Int) (b Int) (i Int)) (! (= (bit (bitor a b) i) (or (bit a i) (bit b i))) :pattern ((bit (bitor a b) i))))")
	ax("and", "(forall ((a Int) (b Int) (i Int)) (! (= (bit (bitand a b) i) (and (bit a i) (bit b i))) :pattern ((bit (bitand a b) i))))")
	ax("andnot", "(forall ((a Int) (b Int) (i Int)) (! (= (bit (bitandnot a b) i) (and (bit a i) (not (bit b i)))) :pattern ((bit (bitandnot a b) i))))")
	ax("xor", "(forall ((a Int) (b Int) (i Int)) (! (= (bit (bitxor a b) i) (xor (bit a i) (bit b i))) :pattern ((bit (bitxor a b) i))))")
	ax("pow2", "(forall ((i Int) (j Int)) (! (=> (and (>= i 0) (< i 64) (>= j 0) (< j 64)) (= (bit (pow2 i) j) (= i j))) :pattern ((bit (pow2 i) j))))")
	ax("and.pow2", "(forall ((a Int) (i Int)) (! (=> (and (>= i 0) (< i 64)) (= (= (bitand a (pow2 i)) 0) (not (bit a i)))) :pattern ((bitand a (pow2 i)))))")
	ax("zero", "(forall ((i Int)) (! (not (bit 0 i)) :pattern ((bit 0 i))))")
	u.d.add("f:biteq", "(declare-fun biteq (Int Int) Bool)")
}

// equal builds the equality of two Go values (comparable types).
func (u *Unit) equal(st *State, a, b Val, pos token.Pos) string {
	// nil comparisons
	if a.Ty != nil && isUntypedNil(a.Ty) {
		a, b = b, a
	}
	if b.Ty != nil && isUntypedNil(b.Ty) {
		if a.Ty == nil {
			return sEq(a.T, "0")
		}
		switch a.Ty.Underlying().(type) {
		case *types.Slice:
			return app("snil_"+a.So, a.T)
		case *types.Map:
			return app("mnil_"+a.So, a.T)
		}
		return sEq(a.T, "0")
	}
	// mixed interface / concrete comparison
	if a.Ty != nil && b.Ty != nil {
		if isInterface(a.Ty) && !isInterface(b.Ty) {
			b = u.convert(b, a.Ty)
		} else if isInterface(b.Ty) && !isInterface(a.Ty) {
			a = u.convert(a, b.Ty)
		}
	}
	return sEq(a.T, b.T)
}

func (u *Unit) evalUnary(st *State, x *ast.UnaryExpr) Val {
	rt := u.typeOf(x)
	switch x.Op {
	case token.NOT:
		v := u.eval(st, x.X)
		return Val{T: sNot(v.T), Ty: rt, So: "Bool"}
	case token.SUB:
		v := u.eval(st, x.X)
		if v.So != "Int" {
			return Val{T: u.uninterp("neg_"+mangle(v.So), []string{v.So}, v.So, v.T), Ty: rt, So: v.So}
		}
		return Val{T: app("-", v.T), Ty: rt, So: "Int"}
	case token.ADD:
		return u.eval(st, x.X)
	case token.AND:
		return u.addressOf(st, x)
	case token.XOR:
		v := u.eval(st, x.X)
		return Val{T: u.uninterp("bitnot", []string{"Int"}, "Int", v.T), Ty: rt, So: "Int"}
	case token.ARROW:
		u.unsupported(x.Pos(), "channel receive")
	}
	u.unsupported(x.Pos(), "unary %s", x.Op)
	return Val{}
}

// addressOf handles &T{...} (allocation) and &x.f style expressions in the limited forms we support.
func (u *Unit) addressOf(st *State, x *ast.UnaryExpr) Val {
	rt := u.typeOf(x)
	inner := ast.Unparen(x.X)
	if cl, ok := inner.(*ast.CompositeLit); ok {
		v := u.evalCompositeLit(st, cl, u.typeOf(cl))
		return u.allocValue(st, v, rt)
	}
	if id, ok := inner.(*ast.Ident); ok {
		// &localVar : the variable must have been promoted to the heap (escaping local)
		obj := u.info.ObjectOf(id)
		if cell, ok := st.ghost["cell:"+objKey(obj)]; ok {
			return Val{T: cell.T, Ty: rt, So: "Int"}
		}
		// promote now: allocate a cell holding the current value
		cur := u.evalIdent(st, id)
		p := u.allocValue(st, cur, rt)
		st.ghost["cell:"+objKey(obj)] = Val{T: p.T, So: "Int"}
		return p
	}
	if sel, ok := inner.(*ast.SelectorExpr); ok {
		// &x.f : an opaque pointer. Writes through it are only modelled by heap havoc of
		// contract-less callees; listed as an abstraction.
		base := u.eval(st, sel.X)
		u.noteAbstract(x.Pos(), "address of a field taken (&"+exprString(sel)+"): modelled as an opaque pointer")
		if _, isPtr := isPointer(base.Ty); isPtr && base.So == "Int" {
			// &p.f = faddr(p, id of f): non-nil and injective in (object, field), nothing else
			if u.d.add("f:faddr", "(declare-fun faddr (Int Int) Int)") {
				u.d.add("f:faddr_obj", "(declare-fun faddr_obj (Int) Int)")
				u.d.add("f:faddr_fld", "(declare-fun faddr_fld (Int) Int)")
				u.d.axiom("faddr.inj", "(forall ((o Int) (k Int)) (! (and (= (faddr_obj (faddr o k)) o) (= (faddr_fld (faddr o k)) k) (> (faddr o k) 0)) :pattern ((faddr o k))))")
			}
			key := u.sortOf(derefType(base.Ty)) + "." + sel.Sel.Name
			hs := fnv.New32a()
			hs.Write([]byte(key))
			return Val{T: app("faddr", base.T, strconv.Itoa(int(hs.Sum32()))), Ty: rt, So: "Int"}
		}
		p := u.fresh("fieldptr", "Int")
		st.assume(app(">", p, "0"))
		return Val{T: p, Ty: rt, So: "Int"}
	}
	u.unsupported(x.Pos(), "address-of %T", inner)
	return Val{}
}

func objKey(o types.Object) string {
	return fmt.Sprintf("%s@%d", o.Name(), o.Pos())
}

// allocValue allocates a new object initialised with v and returns a pointer to it.
func (u *Unit) allocValue(st *State, v Val, ptrType types.Type) Val {
	p := u.newRef(st, "obj")
	pv := Val{T: p, Ty: ptrType, So: "Int"}
	// initialising a fresh object is not a write to pre-existing data (see roKey)
	save := u.astWrite
	u.storeDeref(st, pv, v)
	u.astWrite = save
	return pv
}

// deref loads *p.
func (u *Unit) deref(st *State, p Val, pos token.Pos) Val {
	pt, ok := isPointer(p.Ty)
	if !ok {
		u.unsupported(pos, "deref of non-pointer %v", p.Ty)
	}
	u.safe("nil", pos, st, sNot(sEq(p.T, "0")), "pointer != nil")
	et := pt.Elem()
	if s, ok := isStructValue(et); ok {
		so := u.sortOf(et)
		var fs []string
		for i := 0; i < s.NumFields(); i++ {
			f := s.Field(i)
			if f.Name() == "_" {
				fs = append(fs, u.zero(f.Type()).T)
				continue
			}
			h := u.heapGet(st, u.heapKeyField(so, f.Name()), "(Array Int "+u.sortOf(f.Type())+")")
			fs = append(fs, app("select", h, p.T))
		}
		return Val{T: app("mk_"+so, fs...), Ty: et, So: so}
	}
	so := u.sortOf(et)
	h := u.heapGet(st, "H_ptr_"+mangle(so), "(Array Int "+so+")")
	return Val{T: app("select", h, p.T), Ty: et, So: so}
}

// storeDeref performs *p = v.
func (u *Unit) storeDeref(st *State, p Val, v Val) {
	pt, _ := isPointer(p.Ty)
	et := pt.Elem()
	if s, ok := isStructValue(et); ok {
		so := u.sortOf(et)
		for i := 0; i < s.NumFields(); i++ {
			f := s.Field(i)
			if f.Name() == "_" {
				continue // blank fields cannot be read: their content is not modelled
			}
			key := u.heapKeyField(so, f.Name())
			hs := "(Array Int " + u.sortOf(f.Type()) + ")"
			h := u.heapGet(st, key, hs)
			u.heapSet(st, key, hs, app("store", h, p.T, u.fieldOf(v, f.Name())))
		}
		return
	}
	so := u.sortOf(et)
	key := "H_ptr_" + mangle(so)
	hs := "(Array Int " + so + ")"
	h := u.heapGet(st, key, hs)
	u.heapSet(st, key, hs, app("store", h, p.T, v.T))
}

func (u *Unit) fieldOf(v Val, name string) string {
	prefix := "(mk_" + v.So + " "
	if strings.HasPrefix(v.T, prefix) {
		// constructor application: project syntactically
		if s, ok := v.Ty.Underlying().(*types.Struct); ok {
			args := splitArgs(v.T[len(prefix) : len(v.T)-1])
			if len(args) == s.NumFields() {
				for i := 0; i < s.NumFields(); i++ {
					if s.Field(i).Name() == name {
						return args[i]
					}
				}
			}
		}
	}
	return app(fieldSel(v.So, name), v.T)
}

// splitArgs splits the top-level s-expression arguments.
func splitArgs(s string) []string {
	var out []string
	d := 0
	start := -1
	inStr := false
	for i := 0; i < len(s); i++ {
		c := s[i]
		if inStr {
			if c == '"' {
				if i+1 < len(s) && s[i+1] == '"' {
					i++
					continue
				}
				inStr = false
				if d == 0 {
					out = append(out, s[start:i+1])
					start = -1
				}
			}
			continue
		}
		switch c {
		case '"':
			inStr = true
			if d == 0 && start < 0 {
				start = i
			}
		case '(':
			if d == 0 && start < 0 {
				start = i
			}
			d++
		case ')':
			d--
			if d == 0 {
				out = append(out, s[start:i+1])
				start = -1
			}
		case ' ':
			if d == 0 && start >= 0 {
				out = append(out, s[start:i])
				start = -1
			}
		default:
			if d == 0 && start < 0 {
				start = i
			}
		}
	}
	if start >= 0 {
		out = append(out, s[start:])
	}
	return out
}

// updateField returns v with field name replaced by nv.
func (u *Unit) updateField(v Val, name string, nv string) Val {
	s := v.Ty.Underlying().(*types.Struct)
	var fs []string
	for i := 0; i < s.NumFields(); i++ {
		f := s.Field(i)
		if f.Name() == name {
			fs = append(fs, nv)
		} else {
			fs = append(fs, u.fieldOf(v, f.Name()))
		}
	}
	return Val{T: app("mk_"+v.So, fs...), Ty: v.Ty, So: v.So}
}

// readField reads field f of base (struct value or pointer to struct).
func (u *Unit) readField(st *State, base Val, f *types.Var, pos token.Pos) Val {
	if pt, ok := isPointer(base.Ty); ok {
		u.safe("nil", pos, st, sNot(sEq(base.T, "0")), "receiver != nil")
		so := u.sortOf(pt.Elem())
		fs := u.sortOf(f.Type())
		h := u.heapGet(st, u.heapKeyField(so, f.Name()), "(Array Int "+fs+")")
		v := Val{T: app("select", h, base.T), Ty: f.Type(), So: fs}
		// values stored in the heap satisfy the invariants of their type
		switch ft := f.Type().Underlying().(type) {
		case *types.Slice, *types.Map, *types.Basic:
			if inv := u.typeInv(v); inv != "true" {
				st.assume(inv)
			}
		case *types.Interface:
			// static typing: a non-nil value of interface type I implements I (opt-in: ifacetyping)
			if u.contract != nil && u.contract.IfaceTyping && ft.NumMethods() > 0 && u.inSpec == 0 {
				st.assume(sOr(sEq(v.T, "0"), app(u.sc.implementsFn(f.Type()), app("dyntype", v.T))))
			}
		}
		return v
	}
	return Val{T: u.fieldOf(base, f.Name()), Ty: f.Type(), So: u.sortOf(f.Type())}
}

func structOf(t types.Type) *types.Struct {
	if p, ok := isPointer(t); ok {
		t = p.Elem()
	}
	s, _ := t.Underlying().(*types.Struct)
	return s
}

func (u *Unit) readPath(st *State, base Val, path []int, pos token.Pos) Val {
	cur := base
	for _, i := range path {
		s := structOf(cur.Ty)
		if s == nil {
			u.unsupported(pos, "field path through %v", cur.Ty)
		}
		cur = u.readField(st, cur, s.Field(i), pos)
	}
	return cur
}

func (u *Unit) evalSelector(st *State, x *ast.SelectorExpr) Val {
	if sel, ok := u.info.Selections[x]; ok {
		switch sel.Kind() {
		case types.FieldVal:
			if al, ok := u.aliasOf(x.X); ok {
				return u.readPath(st, u.aliasRead(st, al, x.Pos()), sel.Index(), x.Pos())
			}
			base := u.eval(st, x.X)
			return u.readPath(st, base, sel.Index(), x.Pos())
		case types.MethodVal:
			// method value: opaque function value
			id := u.fresh("methodval", "Int")
			u.methodValue(st, x, sel, id)
			return Val{T: id, Ty: u.typeOf(x), So: "Int"}
		}
		u.unsupported(x.Pos(), "selection kind %v", sel.Kind())
	}
	// qualified identifier pkg.Name
	return u.evalIdent(st, x.Sel)
}

func (u *Unit) evalIndex(st *State, x *ast.IndexExpr) Val {
	// generic function instantiation?
	if tv, ok := u.info.Types[x.X]; ok {
		if _, isSig := tv.Type.Underlying().(*types.Signature); isSig {
			return u.eval(st, x.X)
		}
	}
	base := u.eval(st, x.X)
	rt := u.typeOf(x)
	switch bt := base.Ty.Underlying().(type) {
	case *types.Slice:
		idx := u.eval(st, x.Index)
		_, _, ln, _ := u.sliceParts(base)
		u.safe("index", x.Pos(), st, sAnd(app("<=", "0", idx.T), app("<", idx.T, ln)), "0 <= index < len")
		ev := Val{T: u.sliceAt(base, idx.T), Ty: rt, So: u.sortOf(bt.Elem())}
		// an element read from a slice is a Go value of its type (nested lengths are >= 0, ...)
		switch bt.Elem().Underlying().(type) {
		case *types.Struct, *types.Slice, *types.Map:
			if inv := u.typeInv(ev); inv != "true" && u.inSpec == 0 {
				st.assume(inv)
			}
		}
		return ev
	case *types.Array:
		idx := u.eval(st, x.Index)
		u.safe("index", x.Pos(), st, sAnd(app("<=", "0", idx.T), app("<", idx.T, strconv.FormatInt(bt.Len(), 10))), "0 <= index < len(array)")
		return Val{T: app("select", base.T, idx.T), Ty: rt, So: u.sortOf(bt.Elem())}
	case *types.Pointer:
		if at, ok := bt.Elem().Underlying().(*types.Array); ok {
			arr := u.deref(st, base, x.Pos())
			idx := u.eval(st, x.Index)
			u.safe("index", x.Pos(), st, sAnd(app("<=", "0", idx.T), app("<", idx.T, strconv.FormatInt(at.Len(), 10))), "0 <= index < len(array)")
			return Val{T: app("select", arr.T, idx.T), Ty: rt, So: u.sortOf(at.Elem())}
		}
	case *types.Map:
		idx := u.convert(u.eval(st, x.Index), bt.Key())
		v, _ := u.mapGet(base, idx.T, bt)
		return Val{T: v, Ty: rt, So: u.sortOf(bt.Elem())}
	case *types.Basic:
		if isStringType(base.Ty) {
			idx := u.eval(st, x.Index)
			u.safe("index", x.Pos(), st, sAnd(app("<=", "0", idx.T), app("<", idx.T, app("str.len", base.T))), "0 <= index < len(string)")
			return Val{T: app("str.to_code", app("str.at", base.T, idx.T)), Ty: rt, So: "Int"}
		}
	}
	u.unsupported(x.Pos(), "index of %v", base.Ty)
	return Val{}
}

// mapGet returns (value-or-zero, present)
func (u *Unit) mapGet(m Val, k string, mt *types.Map) (val, ok string) {
	dom := app("mdom_"+m.So, m.T)
	vals := app("mval_"+m.So, m.T)
	present := app("select", dom, k)
	z := u.zero(mt.Elem())
	return sIte(present, app("select", vals, k), z.T), present
}

func (u *Unit) mapPut(m Val, k, v string) Val {
	dom := app("mdom_"+m.So, m.T)
	vals := app("mval_"+m.So, m.T)
	card := app("mcard_"+m.So, m.T)
	present := app("select", dom, k)
	return Val{T: app("mk_"+m.So, app("store", dom, k, "true"), app("store", vals, k, v), sIte(present, card, app("+", card, "1")), "false"), Ty: m.Ty, So: m.So}
}

func (u *Unit) mapDelete(m Val, k string) Val {
	dom := app("mdom_"+m.So, m.T)
	vals := app("mval_"+m.So, m.T)
	card := app("mcard_"+m.So, m.T)
	present := app("select", dom, k)
	return Val{T: app("mk_"+m.So, app("store", dom, k, "false"), vals, sIte(present, app("-", card, "1"), card), app("mnil_"+m.So, m.T)), Ty: m.Ty, So: m.So}
}

func (u *Unit) evalSliceExpr(st *State, x *ast.SliceExpr) Val {
	base := u.eval(st, x.X)
	rt := u.typeOf(x)
	var lo, hi string = "0", ""
	if x.Low != nil {
		lo = u.eval(st, x.Low).T
	}
	if x.High != nil {
		hi = u.eval(st, x.High).T
	}
	if x.Max != nil {
		u.eval(st, x.Max)
	}
	if isStringType(base.Ty) {
		if hi == "" {
			hi = app("str.len", base.T)
		}
		u.safe("slice", x.Pos(), st, sAnd(app("<=", "0", lo), app("<=", lo, hi), app("<=", hi, app("str.len", base.T))), "0 <= lo <= hi <= len(string)")
		return Val{T: app("str.substr", base.T, lo, sSub(hi, lo)), Ty: rt, So: "String"}
	}
	switch bt := base.Ty.Underlying().(type) {
	case *types.Slice:
		_, _, ln, _ := u.sliceParts(base)
		if hi == "" {
			hi = ln
		}
		u.safe("slice", x.Pos(), st, sAnd(app("<=", "0", lo), app("<=", lo, hi), app("<=", hi, ln)), "0 <= lo <= hi <= len (capacity is not modelled)")
		return Val{T: u.subSlice(base, lo, hi), Ty: rt, So: base.So}
	case *types.Array:
		so := u.sortOf(rt)
		if hi == "" {
			hi = strconv.FormatInt(bt.Len(), 10)
		}
		u.safe("slice", x.Pos(), st, sAnd(app("<=", "0", lo), app("<=", lo, hi), app("<=", hi, strconv.FormatInt(bt.Len(), 10))), "0 <= lo <= hi <= len(array)")
		return Val{T: u.subSlice(Val{T: u.mkSlice(so, base.T, "0", strconv.FormatInt(bt.Len(), 10), "false"), Ty: rt, So: so}, lo, hi), Ty: rt, So: so}
	}
	u.unsupported(x.Pos(), "slice of %v", base.Ty)
	return Val{}
}

func (u *Unit) evalCompositeLit(st *State, x *ast.CompositeLit, t types.Type) Val {
	if t == nil {
		u.unsupported(x.Pos(), "composite literal without type")
	}
	so := u.sortOf(t)
	switch ut := t.Underlying().(type) {
	case *types.Struct:
		vals := make([]string, ut.NumFields())
		for i := range vals {
			vals[i] = u.zero(ut.Field(i).Type()).T
		}
		for i, el := range x.Elts {
			if kv, ok := el.(*ast.KeyValueExpr); ok {
				name := kv.Key.(*ast.Ident).Name
				for j := 0; j < ut.NumFields(); j++ {
					if ut.Field(j).Name() == name {
						vals[j] = u.convert(u.evalElt(st, kv.Value, ut.Field(j).Type()), ut.Field(j).Type()).T
					}
				}
			} else {
				vals[i] = u.convert(u.evalElt(st, el, ut.Field(i).Type()), ut.Field(i).Type()).T
			}
		}
		return Val{T: app("mk_"+so, vals...), Ty: t, So: so}
	case *types.Slice:
		es := u.sortOf(ut.Elem())
		arr := u.d.constant("emptyarr_"+mangle(es), "(Array Int "+es+")")
		n := 0
		for _, el := range x.Elts {
			if kv, ok := el.(*ast.KeyValueExpr); ok {
				_ = kv
				u.unsupported(x.Pos(), "keyed slice literal")
			}
			v := u.convert(u.evalElt(st, el, ut.Elem()), ut.Elem())
			arr = app("store", arr, strconv.Itoa(n), v.T)
			n++
		}
		return Val{T: u.mkSlice(so, arr, "0", strconv.Itoa(n), "false"), Ty: t, So: so}
	case *types.Array:
		arr := u.zeroArray(u.sortOf(ut.Elem()), u.zero(ut.Elem()).T)
		n := int64(0)
		for _, el := range x.Elts {
			if kv, ok := el.(*ast.KeyValueExpr); ok {
				ktv := u.info.Types[kv.Key]
				if ktv.Value == nil {
					u.unsupported(x.Pos(), "non-constant array key")
				}
				n, _ = constant.Int64Val(ktv.Value)
				el = kv.Value
			}
			v := u.convert(u.evalElt(st, el, ut.Elem()), ut.Elem())
			arr = app("store", arr, strconv.FormatInt(n, 10), v.T)
			n++
		}
		return Val{T: arr, Ty: t, So: so}
	case *types.Map:
		m := Val{T: app("mk_"+so, fmt.Sprintf("((as const (Array %s Bool)) false)", u.sortOf(ut.Key())), u.d.constant("emptymap_"+mangle(u.sortOf(ut.Key()))+"_"+mangle(u.sortOf(ut.Elem())), "(Array "+u.sortOf(ut.Key())+" "+u.sortOf(ut.Elem())+")"), "0", "false"), Ty: t, So: so}
		for _, el := range x.Elts {
			kv := el.(*ast.KeyValueExpr)
			k := u.convert(u.evalElt(st, kv.Key, ut.Key()), ut.Key())
			v := u.convert(u.evalElt(st, kv.Value, ut.Elem()), ut.Elem())
			m = u.mapPut(m, k.T, v.T)
		}
		return m
	}
	u.unsupported(x.Pos(), "composite literal of %v", t)
	return Val{}
}

// evalElt evaluates an element of a composite literal, which may itself be an untyped literal {…}.
func (u *Unit) evalElt(st *State, e ast.Expr, t types.Type) Val {
	if cl, ok := e.(*ast.CompositeLit); ok && cl.Type == nil {
		if pt, ok := isPointer(t); ok {
			v := u.evalCompositeLit(st, cl, pt.Elem())
			return u.allocValue(st, v, t)
		}
		return u.evalCompositeLit(st, cl, t)
	}
	return u.eval(st, e)
}

// typeAssert evaluates x.(T); with commaOk the second result is the ok flag.
func (u *Unit) typeAssert(st *State, x *ast.TypeAssertExpr, commaOk bool) (Val, string) {
	v := u.eval(st, x.X)
	t := u.typeOf(x.Type)
	return u.typeAssertVal(st, v, t, commaOk, x.Pos())
}

func (u *Unit) typeAssertVal(st *State, v Val, t types.Type, commaOk bool, pos token.Pos) (Val, string) {
	if isInterface(t) {
		// interface-to-interface: the implements relation is not modelled
		ok := app(u.sc.implementsFn(t), app("dyntype", v.T))
		okT := sAnd(sNot(sEq(v.T, "0")), ok)
		if !commaOk {
			if u.contract == nil || !u.contract.MayPanic || u.contract.Sweep {
				u.oblige("nopanic", "assert."+u.safeLabel("assert"), pos, st, okT, "type assertion holds")
			}
			st.assume(okT)
		}
		return Val{T: sIte(okT, v.T, "0"), Ty: t, So: "Int"}, okT
	}
	_, unbox, tid := u.sc.boxFns(t)
	okT := sEq(app("dyntype", v.T), strconv.Itoa(tid))
	res := Val{T: app(unbox, v.T), Ty: t, So: u.sortOf(t)}
	if inv := u.typeInv(res); inv != "true" {
		st.assume(sImp(okT, inv))
	}
	if !commaOk {
		if u.contract == nil || !u.contract.MayPanic || u.contract.Sweep {
			u.oblige("nopanic", "assert."+u.safeLabel("assert"), pos, st, okT, "type assertion holds")
		}
		st.assume(okT)
		return res, okT
	}
	z := u.zero(t)
	return Val{T: sIte(okT, res.T, z.T), Ty: t, So: res.So}, okT
}

// assign performs lhs = v.
func (u *Unit) assign(st *State, lhs ast.Expr, v Val) {
	lhs = ast.Unparen(lhs)
	switch x := lhs.(type) {
	case *ast.Ident:
		if x.Name == "_" {
			return
		}
		obj := u.info.ObjectOf(x)
		vo, ok := obj.(*types.Var)
		if !ok {
			u.unsupported(x.Pos(), "assignment to %T", obj)
		}
		v = u.convert(v, vo.Type())
		if vo.Pkg() != nil && vo.Parent() == vo.Pkg().Scope() {
			u.heapSet(st, u.globalKey(vo), v.So, v.T)
			return
		}
		if cell, ok := st.ghost["cell:"+objKey(obj)]; ok {
			u.storeDeref(st, Val{T: cell.T, Ty: types.NewPointer(vo.Type()), So: "Int"}, v)
		}
		u.bind(st, vo, v)
	case *ast.SelectorExpr:
		sel, ok := u.info.Selections[x]
		if !ok {
			// package-qualified global
			u.assign(st, x.Sel, v)
			return
		}
		if al, ok := u.aliasOf(x.X); ok {
			cur := u.aliasRead(st, al, x.Pos())
			nv, changed := u.storeInValue(st, cur, sel.Index(), v, x.Pos())
			if changed {
				u.aliasWrite(st, al, nv, x.Pos())
			}
			return
		}
		base := u.eval(st, x.X)
		u.storePath(st, x.X, base, sel.Index(), v, x.Pos())
	case *ast.IndexExpr:
		base := u.eval(st, x.X)
		switch bt := base.Ty.Underlying().(type) {
		case *types.Slice:
			u.checkParamElemWrite(st, x)
			idx := u.eval(st, x.Index)
			arr, off, ln, isnil := u.sliceParts(base)
			u.safe("index", x.Pos(), st, sAnd(app("<=", "0", idx.T), app("<", idx.T, ln)), "0 <= index < len")
			v = u.convert(v, bt.Elem())
			nv := Val{T: u.mkSlice(base.So, app("store", arr, sAdd(off, idx.T), v.T), off, ln, isnil), Ty: base.Ty, So: base.So}
			u.assign(st, x.X, nv)
		case *types.Array:
			idx := u.eval(st, x.Index)
			u.safe("index", x.Pos(), st, sAnd(app("<=", "0", idx.T), app("<", idx.T, strconv.FormatInt(bt.Len(), 10))), "0 <= index < len(array)")
			v = u.convert(v, bt.Elem())
			u.assign(st, x.X, Val{T: app("store", base.T, idx.T, v.T), Ty: base.Ty, So: base.So})
		case *types.Map:
			idx := u.convert(u.eval(st, x.Index), bt.Key())
			v = u.convert(v, bt.Elem())
			u.safe("nilmap", x.Pos(), st, sNot(app("mnil_"+base.So, base.T)), "map != nil for write")
			u.assign(st, x.X, u.mapPut(base, idx.T, v.T))
		default:
			u.unsupported(x.Pos(), "index assignment on %v", base.Ty)
		}
	case *ast.StarExpr:
		if al, ok := u.aliasOf(x.X); ok {
			u.aliasWrite(st, al, v, x.Pos())
			return
		}
		p := u.eval(st, x.X)
		u.safe("nil", x.Pos(), st, sNot(sEq(p.T, "0")), "pointer != nil")
		pt, _ := isPointer(p.Ty)
		u.storeDeref(st, p, u.convert(v, pt.Elem()))
	default:
		u.unsupported(lhs.Pos(), "assignment target %T", lhs)
	}
}

func (u *Unit) bind(st *State, obj types.Object, v Val) {
	// long terms, and joins (ite) of aggregate values -- which would otherwise end up inside
	// quantifier triggers, where solvers reject ite -- get a name
	if len(v.T) > 160 || (strings.HasPrefix(v.T, "(ite ") && v.So != "Int" && v.So != "Bool" && v.So != "String") {
		n := u.fresh(obj.Name(), v.So)
		st.assume(sEq(n, v.T))
		v.T = n
	}
	st.vars[obj] = v
}

// storePath writes v into the field path below base (baseExpr is the expression that denotes base).
func (u *Unit) storePath(st *State, baseExpr ast.Expr, base Val, path []int, v Val, pos token.Pos) {
	nv, changed := u.storeInValue(st, base, path, v, pos)
	if changed {
		u.assign(st, baseExpr, nv)
	}
}

func (u *Unit) storeInValue(st *State, cur Val, path []int, v Val, pos token.Pos) (Val, bool) {
	s := structOf(cur.Ty)
	if s == nil {
		u.unsupported(pos, "store through %v", cur.Ty)
	}
	f := s.Field(path[0])
	if pt, ok := isPointer(cur.Ty); ok {
		u.safe("nil", pos, st, sNot(sEq(cur.T, "0")), "pointer != nil")
		so := u.sortOf(pt.Elem())
		key := u.heapKeyField(so, f.Name())
		hs := "(Array Int " + u.sortOf(f.Type()) + ")"
		h := u.heapGet(st, key, hs)
		if len(path) == 1 {
			v = u.convert(v, f.Type())
			u.heapSet(st, key, hs, app("store", h, cur.T, v.T))
			return cur, false
		}
		inner := Val{T: app("select", h, cur.T), Ty: f.Type(), So: u.sortOf(f.Type())}
		ni, ch := u.storeInValue(st, inner, path[1:], v, pos)
		if ch {
			h = u.heapGet(st, key, hs)
			u.heapSet(st, key, hs, app("store", h, cur.T, ni.T))
		}
		return cur, false
	}
	if len(path) == 1 {
		v = u.convert(v, f.Type())
		return u.updateField(cur, f.Name(), v.T), true
	}
	inner := Val{T: u.fieldOf(cur, f.Name()), Ty: f.Type(), So: u.sortOf(f.Type())}
	ni, ch := u.storeInValue(st, inner, path[1:], v, pos)
	if !ch {
		return cur, false
	}
	return u.updateField(cur, f.Name(), ni.T), true
}

// ---- pointers to slice elements (p := &s[i]) ----
// Modelled as an lvalue alias: reads and writes through p go to s[i]. p must not escape.

type elemAlias struct {
	base ast.Expr
	idx  string
}

func (u *Unit) aliasOf(e ast.Expr) (elemAlias, bool) {
	id, ok := ast.Unparen(e).(*ast.Ident)
	if !ok {
		return elemAlias{}, false
	}
	obj := u.info.ObjectOf(id)
	al, ok := u.elemAlias[obj]
	return al, ok
}

func (u *Unit) aliasRead(st *State, al elemAlias, pos token.Pos) Val {
	base := u.eval(st, al.base)
	bt := base.Ty.Underlying().(*types.Slice)
	_, _, ln, _ := u.sliceParts(base)
	u.safe("index", pos, st, sAnd(app("<=", "0", al.idx), app("<", al.idx, ln)), "0 <= index < len")
	return Val{T: u.sliceAt(base, al.idx), Ty: bt.Elem(), So: u.sortOf(bt.Elem())}
}

func (u *Unit) aliasWrite(st *State, al elemAlias, v Val, pos token.Pos) {
	base := u.eval(st, al.base)
	arr, _, ln, isnil := u.sliceParts(base)
	nv := Val{T: u.mkSlice(base.So, app("store", arr, al.idx, v.T), "0", ln, isnil), Ty: base.Ty, So: base.So}
	u.assign(st, al.base, nv)
}

// zeroArray returns an (Array Int elem) that holds the zero value everywhere. A literal
// constant array is used when the zero value is a literal (cvc5 requires that); otherwise a
// declared array with a quantified axiom.
func (u *Unit) zeroArray(elemSort, zero string) string {
	if !strings.ContainsAny(zero, "_$") || zero == "false" || zero == "0" || zero == `""` {
		return app(fmt.Sprintf("(as const (Array Int %s))", elemSort), zero)
	}
	name := "zeroarr_" + mangle(elemSort)
	u.d.constant(name, "(Array Int "+elemSort+")")
	u.d.axiom("zeroarr."+name, fmt.Sprintf("(forall ((i Int)) (! (= (select %s i) %s) :pattern ((select %s i))))", name, zero, name))
	return name
}

// pow2Lit rewrites a literal power of two into (pow2 k) so that the bit axioms apply to it.
func pow2Lit(t string) string {
	if !isLit(t) {
		return t
	}
	v, err := strconv.ParseUint(t, 10, 64)
	if err != nil || v == 0 || v&(v-1) != 0 {
		return t
	}
	k := 0
	for v > 1 {
		v >>= 1
		k++
	}
	return app("pow2", strconv.Itoa(k))
}

// checkParamElemWrite: writing an element of a slice parameter is visible to the caller in Go.
// The value model only propagates it if the contract declares the parameter in `writes`.
func (u *Unit) checkParamElemWrite(st *State, x *ast.IndexExpr) {
	if u.inlineDepth > 0 || u.sig == nil || u.contract == nil {
		return
	}
	id, ok := ast.Unparen(x.X).(*ast.Ident)
	if !ok {
		return
	}
	obj := u.info.ObjectOf(id)
	for i := 0; i < u.sig.Params().Len(); i++ {
		if u.sig.Params().At(i) == obj {
			for _, w := range u.contract.Writes {
				if w == id.Name {
					return
				}
			}
			// only a problem if the parameter still denotes the caller's slice
			if cur, ok := st.vars[obj]; ok && u.entry != nil {
				if ent, ok := u.entry.vars[obj]; ok && cur.T != ent.T && !strings.Contains(cur.T, ent.T) {
					return
				}
			}
			u.oblige("frame", "param."+id.Name+"."+u.safeLabel("paramwrite"), x.Pos(), st, "false", "element of slice parameter "+id.Name+" is written but the contract has no `writes "+id.Name+"`")
		}
	}
}

// bitLiteral states the bits of a numeric literal that is not a power of two.
func (u *Unit) bitLiteral(t string) {
	if !isLit(t) || pow2Lit(t) != t {
		return
	}
	v, err := strconv.ParseUint(t, 10, 64)
	if err != nil || v == 0 {
		return
	}
	var cs []string
	for i := 0; i < 64; i++ {
		b := bitApp(t, strconv.Itoa(i))
		if v&(1<<uint(i)) == 0 {
			b = sNot(b)
		}
		cs = append(cs, b)
	}
	u.d.axiom("bitlit."+t, sAnd(cs...))
}

func derefType(t types.Type) types.Type {
	if p, ok := t.Underlying().(*types.Pointer); ok {
		return p.Elem()
	}
	return t
}
