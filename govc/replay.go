package main

// Replay drivers: a refutation's model is handed to a hand-written in-package Go test that is
// injected into the real package with `go test -overlay` (nothing is written into /repo). The
// driver decodes the model, runs the real function and checks the contract clause with an
// independent oracle; it prints REPRODUCED when the real code misbehaves.

import (
	"encoding/json"
	"fmt"
	"os"
	"os/exec"
	"path/filepath"
	"strings"
	"time"
	"context"
)

// hasReplayDriver: used for obligations that were never discharged. A driver may stand witness
// for such an obligation only if it says so: a line "// witnesses: a, b" lists substrings of
// the obligation names whose failure the driver's scenario demonstrates.
func hasReplayDriver(r *Report, o *Obl) bool {
	d := findReplayDriver(r, o)
	if d == "" {
		return false
	}
	b, err := os.ReadFile(d)
	if err != nil {
		return false
	}
	for _, l := range strings.Split(string(b), "\n") {
		l = strings.TrimSpace(l)
		if !strings.HasPrefix(l, "// witnesses:") {
			continue
		}
		for _, w := range strings.Split(strings.TrimPrefix(l, "// witnesses:"), ",") {
			if w = strings.TrimSpace(w); w != "" && strings.Contains(o.Name, w) {
				return true
			}
		}
	}
	return false
}

func findReplayDriver(r *Report, o *Obl) string {
	driver := ""
	cands := []string{safeFileName(o.Unit)}
	if i := strings.Index(o.Unit, ".lemma."); i >= 0 {
		cands = append(cands, safeFileName(o.Unit[:i])+".lemma")
	}
	if i := strings.Index(o.Unit, "."); i >= 0 {
		cands = append(cands, safeFileName(o.Unit[:i])+".any")
	}
	for _, c := range cands {
		p := filepath.Join(r.Verif, "replay", "drivers", c+"_test.go")
		if _, err := os.Stat(p); err == nil {
			driver = p
			break
		}
	}
	return driver
}

func runReplayDriver(r *Report, o *Obl, path string) bool {
	driver := ""
	cands := []string{safeFileName(o.Unit)}
	if i := strings.Index(o.Unit, ".lemma."); i >= 0 {
		cands = append(cands, safeFileName(o.Unit[:i])+".lemma")
	}
	if i := strings.Index(o.Unit, "."); i >= 0 {
		cands = append(cands, safeFileName(o.Unit[:i])+".any")
	}
	for _, c := range cands {
		p := filepath.Join(r.Verif, "replay", "drivers", c+"_test.go")
		if _, err := os.Stat(p); err == nil {
			driver = p
			break
		}
	}
	if driver == "" {
		return false
	}
	if o.PkgDir == "" {
		return false
	}
	tmp, err := os.MkdirTemp("", "govc-replay-")
	if err != nil {
		return false
	}
	defer os.RemoveAll(tmp)
	target := filepath.Join(o.PkgDir, "zz_verif_replay_test.go")
	ov := map[string]any{"Replace": map[string]string{target: driver}}
	ovb, _ := json.Marshal(ov)
	ovPath := filepath.Join(tmp, "overlay.json")
	os.WriteFile(ovPath, ovb, 0o644)
	small := map[string]string{}
	for k, v := range o.Model {
		if len(v) <= 1000 {
			small[k] = v
		}
	}
	model, _ := json.Marshal(map[string]any{"obligation": o.Name, "model": small})
	ctx, cancel := context.WithTimeout(context.Background(), 120*time.Second)
	defer cancel()
	cmd := exec.CommandContext(ctx, "go", "test", "-overlay", ovPath, "-vet=off", "-count=1", "-timeout", "60s", "-run", "TestVerifReplay", ".")
	cmd.Dir = o.PkgDir
	cmd.Env = append(os.Environ(), "VERIF_MODEL="+string(model))
	out, _ := cmd.CombinedOutput()
	reproduced := strings.Contains(string(out), "REPRODUCED")
	// record in the replay file
	if b, err := os.ReadFile(path); err == nil {
		var m map[string]any
		if json.Unmarshal(b, &m) == nil {
			m["replayed_on_real_code"] = reproduced
			m["replay_driver"] = driver
			m["replay_cmd"] = fmt.Sprintf("cd %s && VERIF_MODEL='%s' go test -overlay <overlay mapping %s to the driver> -vet=off -count=1 -timeout 60s -run TestVerifReplay .", o.PkgDir, string(model), target)
			m["replay_output"] = truncate(string(out), 6000)
			if nb, err := json.MarshalIndent(m, "", " "); err == nil {
				os.WriteFile(path, nb, 0o644)
			}
		}
	}
	return reproduced
}
