package main

// Replay drivers: turn a solver model into a Go test injected with -overlay.

func runReplayDriver(r *Report, o *Obl, path string) bool {
	return false
}
