package main

// Bounded stand-ins: exhaustive runs of a real function on all inputs up to a stated bound, for
// functions that cannot be brought within the verifier's reach. Reported separately, labelled
// bounded, never counted in obligations/discharged.

import (
	"context"
	"encoding/json"
	"os"
	"os/exec"
	"path/filepath"
	"strings"
	"time"
)

func runBounded(r *Report, b BoundedSpec) (bool, map[string]any) {
	info := map[string]any{"name": b.Name, "what": b.What, "label": "bounded (not a proof)", "tier": r.Tier}
	tmp, err := os.MkdirTemp("", "govc-bounded-")
	if err != nil {
		info["error"] = err.Error()
		return true, info
	}
	defer os.RemoveAll(tmp)
	pkgDir := filepath.Join(r.Repo, b.PkgDir)
	target := filepath.Join(pkgDir, "zz_verif_bounded_test.go")
	ov, _ := json.Marshal(map[string]any{"Replace": map[string]string{target: filepath.Join(r.Verif, b.TestFile)}})
	ovPath := filepath.Join(tmp, "overlay.json")
	os.WriteFile(ovPath, ov, 0o644)
	env := b.Quick
	if r.Tier == "thorough" {
		env = b.Thorough
	}
	timeout := b.TimeoutS
	if timeout == 0 {
		timeout = 600
	}
	if r.Tier == "thorough" {
		timeout *= 4
	}
	ctx, cancel := context.WithTimeout(context.Background(), time.Duration(timeout+30)*time.Second)
	defer cancel()
	t0 := time.Now()
	cmd := exec.CommandContext(ctx, "go", "test", "-overlay", ovPath, "-vet=off", "-count=1", "-timeout", (time.Duration(timeout) * time.Second).String(), "-run", b.Run, "-v", ".")
	cmd.Dir = pkgDir
	cmd.Env = os.Environ()
	for k, v := range env {
		cmd.Env = append(cmd.Env, k+"="+v)
		info["env_"+k] = v
	}
	out, runErr := cmd.CombinedOutput()
	info["wall_s"] = time.Since(t0).Seconds()
	ok := runErr == nil
	for _, l := range strings.Split(string(out), "\n") {
		if strings.HasPrefix(l, "VERIF-BOUNDED ") {
			var m map[string]any
			if json.Unmarshal([]byte(strings.TrimPrefix(l, "VERIF-BOUNDED ")), &m) == nil {
				for k, v := range m {
					info[k] = v
				}
			}
		}
	}
	if !ok {
		info["output_tail"] = truncate(tailOf(string(out), 3000), 3000)
		if !strings.Contains(string(out), "REPRODUCED") {
			// build failure or timeout: not a counterexample
			info["error"] = "bounded run did not complete"
			if strings.Contains(string(out), "REPRODUCED") == false && info["failure"] == nil {
				return true, info
			}
		}
	}
	return ok, info
}

func tailOf(s string, n int) string {
	if len(s) > n {
		return s[len(s)-n:]
	}
	return s
}
