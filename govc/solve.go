package main

// Solver racing: every obligation is sent to z3 4.8.12, z3 5.1.0 (z3-new) and cvc5; the
// first definitive answer wins.

import (
	"context"
	"fmt"
	"os"
	"os/exec"
	"path/filepath"
	"strings"
	"sync"
	"time"
)

type solverSpec struct {
	name string
	bin  string
	args func(timeoutS int, file string) []string
	cvc5 bool
}

var solvers = []solverSpec{
	{name: "z3-new", bin: "z3-new", args: func(t int, f string) []string { return []string{fmt.Sprintf("-T:%d", t), f} }},
	{name: "z3", bin: "z3", args: func(t int, f string) []string { return []string{fmt.Sprintf("-T:%d", t), f} }},
	{name: "cvc5", bin: "cvc5", cvc5: true, args: func(t int, f string) []string {
		return []string{fmt.Sprintf("--tlimit=%d", t*1000), "--strings-exp", f}
	}},
}

type solveOpts struct {
	timeoutS int
	dir      string
	workers  int
	seed     int
}

func firstLine(s string) string {
	for _, l := range strings.Split(s, "\n") {
		l = strings.TrimSpace(l)
		if l != "" && !strings.HasPrefix(l, "WARNING") {
			return l
		}
	}
	return ""
}

func runSolver(ctx context.Context, sp solverSpec, file string, timeoutS int) (status, out string, dur float64) {
	t0 := time.Now()
	cctx, cancel := context.WithTimeout(ctx, time.Duration(timeoutS+2)*time.Second)
	defer cancel()
	cmd := exec.CommandContext(cctx, sp.bin, sp.args(timeoutS, file)...)
	b, _ := cmd.CombinedOutput()
	dur = time.Since(t0).Seconds()
	// z3 prints WARNING lines (e.g. about patterns) before its answer: drop them
	var kept []string
	for _, l := range strings.Split(string(b), "\n") {
		if !strings.HasPrefix(strings.TrimSpace(l), "WARNING") {
			kept = append(kept, l)
		}
	}
	out = strings.TrimLeft(strings.Join(kept, "\n"), "\n ")
	fl := firstLine(out)
	switch {
	case fl == "unsat":
		return "unsat", out, dur
	case fl == "sat":
		return "sat", out, dur
	case fl == "unknown":
		return "unknown", out, dur
	case strings.Contains(fl, "timeout") || cctx.Err() != nil:
		return "timeout", out, dur
	case strings.HasPrefix(fl, "(error") || strings.Contains(out, "error"):
		return "error", out, dur
	}
	return "unknown", out, dur
}

func safeFileName(s string) string {
	r := strings.NewReplacer("/", "_", " ", "_", "(", "", ")", "", "*", "P", "#", "-", "$", "S", "@", "-at-", "~", "-", "\"", "", ":", "_", ",", "_", "'", "", "<", "", ">", "", "|", "", "&", "", ";", "", "`", "", "\\", "")
	out := r.Replace(s)
	if len(out) > 180 {
		out = out[:180]
	}
	return out
}

// solveOne races the solvers on one obligation.
func solveOne(o *Obl, opt solveOpts) {
	base := filepath.Join(opt.dir, safeFileName(o.Name))
	fz := base + ".smt2"
	fc := base + ".cvc5.smt2"
	if err := writeFile(fz, o.smt(true, false)); err != nil {
		o.Status = "error"
		return
	}
	writeFile(fc, o.smt(true, true))
	o.File = fz
	o.Raw = map[string]string{}
	if o.Goal == "true" {
		o.Status, o.Solver = "unsat", "syntactic"
		return
	}
	ctx, cancel := context.WithCancel(context.Background())
	defer cancel()
	type res struct {
		sp     solverSpec
		status string
		out    string
		dur    float64
	}
	ch := make(chan res, len(solvers))
	for _, sp := range solvers {
		sp := sp
		go func() {
			f := fz
			if sp.cvc5 {
				f = fc
			}
			to := opt.timeoutS
			if o.ExpectSat && to > 3 {
				to = 3 // satisfiability probes: a quick model or nothing
			}
			st, out, d := runSolver(ctx, sp, f, to)
			ch <- res{sp, st, out, d}
		}()
	}
	t0 := time.Now()
	final := ""
	var mu sync.Mutex
	for i := 0; i < len(solvers); i++ {
		r := <-ch
		mu.Lock()
		o.Raw[r.sp.name] = truncate(r.out, 4000)
		mu.Unlock()
		if r.status == "unsat" || r.status == "sat" {
			// a definitive answer: for expect-sat probes and refutations keep the model output
			if final == "" {
				final = r.status
				o.Status = r.status
				o.Solver = r.sp.name
				o.Time = time.Since(t0).Seconds()
				if r.status == "sat" {
					o.Model = parseGetValue(r.out)
				}
				cancel()
			}
		}
	}
	if final == "" {
		// all inconclusive
		st := "unknown"
		allTimeout, allError := true, true
		for _, v := range o.Raw {
			fl := firstLine(v)
			if fl == "unknown" {
				allTimeout = false
				allError = false
			} else if strings.HasPrefix(fl, "(error") {
				allTimeout = false
			} else {
				allError = false
			}
		}
		if allError {
			st = "error"
		} else if allTimeout {
			st = "timeout"
		}
		o.Status = st
		o.Time = time.Since(t0).Seconds()
	}
}

func truncate(s string, n int) string {
	if len(s) > n {
		return s[:n] + "…"
	}
	return s
}

// parseGetValue parses "((a 1) (b "x") ...)" following the sat line.
func parseGetValue(out string) map[string]string {
	i := strings.Index(out, "\n")
	if i < 0 {
		return nil
	}
	rest := strings.TrimSpace(out[i+1:])
	if !strings.HasPrefix(rest, "(") {
		return nil
	}
	// find the matching close of the first s-expression
	d := 0
	end := -1
	inStr := false
	for j := 0; j < len(rest); j++ {
		c := rest[j]
		if inStr {
			if c == '"' {
				inStr = false
			}
			continue
		}
		switch c {
		case '"':
			inStr = true
		case '(':
			d++
		case ')':
			d--
			if d == 0 {
				end = j
			}
		}
		if end >= 0 {
			break
		}
	}
	if end < 0 {
		return nil
	}
	inner := rest[1:end]
	m := map[string]string{}
	for _, pair := range splitArgs(inner) {
		if !strings.HasPrefix(pair, "(") {
			continue
		}
		kv := splitArgs(pair[1 : len(pair)-1])
		if len(kv) == 2 {
			m[kv[0]] = kv[1]
		}
	}
	return m
}

func solveAll(obls []*Obl, opt solveOpts) {
	os.MkdirAll(opt.dir, 0o755)
	var wg sync.WaitGroup
	ch := make(chan *Obl)
	for i := 0; i < opt.workers; i++ {
		wg.Add(1)
		go func() {
			defer wg.Done()
			for o := range ch {
				solveOne(o, opt)
			}
		}()
	}
	for _, o := range obls {
		ch <- o
	}
	close(ch)
	wg.Wait()
}
