#!/bin/sh
# Runs every claimed check (quick tier) on the current /repo and prints one line per property.
cd /verif
for p in $(python3 -c "import json;print(' '.join(c['property_id'] for c in json.load(open('MANIFEST.json'))['checks']))"); do
  out=$(./check $p ${1:-quick} 2>&1); rc=$?
  echo "$p exit=$rc $(echo "$out" | tail -1)"
  echo "$out" | grep -E "^(VIOLATION|UNDECIDED|KNOWN)" | cut -c1-200
done
