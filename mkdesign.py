#!/usr/bin/env python3
# Regenerates section 0 of DESIGN.md from design_sec0.md, the evidence files and seeded/RESULTS.txt.
import json, re, os
V='/verif'
claimed=json.load(open(V+'/MANIFEST.json'))
ids=[c['property_id'] for c in claimed['checks']] if 'checks' in claimed else []
rows=['| id | functions under contract (verified bodies), lemmas | discharged on the unchanged tree | generated but not discharged (not counted) |','|---|---|---|---|']
for pid in sorted(ids):
    p=V+'/evidence/%s.json'%pid
    if not os.path.exists(p): continue
    e=json.load(open(p)); c=e['coverage']
    fs=[]
    nl=0
    for f in c.get('functions_under_contract',[]):
        name=f.split(' (')[0]
        if '.lemma.' in name:
            nl+=1; continue
        if name.startswith('sweep.'):
            fs.append('annotation-free sweep `%s`'%name[6:]); continue
        fs.append('`'+name.split('/')[-1]+'`')
    if len(fs)>30:
        keep=[f for f in fs if 'graph).stmt' in f or 'sweep' in f]
        txt=', '.join(keep)+' + %d functions / literals of the zero-annotation safety sweep that have at least one discharged obligation'%(len(fs)-len(keep))
    else:
        txt=', '.join(fs)
    if nl: txt+=' + %d lemmas'%nl
    b=c.get('bounded') or []
    for x in b:
        txt+='; **bounded** stand-in `%s`'%x.get('name','?')
    unp=c.get('unproved_not_counted',[])
    rows.append('| %s | %s | %d (%s) | %s |'%(pid,txt,c['discharged'],', '.join('%s %d'%(k,v) for k,v in sorted(c.get('by_solver',{}).items())), (('; '.join('`'+u+'`' for u in unp[:2]) + (' … (%d more)'%(len(unp)-2) if len(unp)>2 else '')) if unp else '—')))
table='\n'.join(rows)
sd=['| change | check | result | first failing obligation |','|---|---|---|---|']
for l in open(V+'/seeded/RESULTS.txt'):
    w=l.split()
    if len(w)<2: continue
    name=w[0]
    if w[1]=='patch-does-not-apply':
        sd.append('| %s | | patch does not apply | |'%name); continue
    kv=dict(x.split('=',1) for x in w[1:4])
    first=' '.join(w[4:5])
    res={'0':'**missed**','1':'detected','2':'undecided (exit 2)'}.get(kv['exit'],kv['exit'])
    sd.append('| %s | %s | %s | %s |'%(name,kv['check'],res,('`'+first+'`') if first else ''))
seeded='\n'.join(sd)
sec=open(V+'/design_sec0.md').read().replace('@@TABLE@@',table).replace('@@SEEDED@@',seeded)
d=open(V+'/DESIGN.md').read()
i=d.index('## 0. As built')
j=d.index('## 1. What this family')
sep='\n---------------------------------------------------------------------------------------\n\n'
d=d[:i]+sec.rstrip('\n')+'\n'+sep+d[j:]
open(V+'/DESIGN.md','w').write(d)
print('DESIGN.md section 0 regenerated')
