#!/bin/sh
# The repository's own test suite with the verif build tag OFF (same command as BASELINE.json).
cd /repo || exit 2
export GOFLAGS=-mod=mod GOPROXY=off
rc=0
for m in . ./website; do
  (cd /repo/$m && go test -vet=off -count=1 -timeout 25m ./...) || rc=1
done
exit $rc
