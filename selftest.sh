#!/bin/sh
# Must-fail corpus for the engine: every change below breaks a property, so the matching check
# must exit 1 with a VIOLATION line. Run after every engine change.
#   (a) each genuine defect that was repaired (known-findings.txt, "fixed:" entries) is
#       re-introduced by reverse-applying its fix commit to a scratch worktree of /repo;
#   (b) each seeded change under seeded/ listed in seeded/EXPECTED.txt as detected.
# Worktrees live under /tmp and are removed afterwards. Exit 0 iff every expected alarm is raised.
# ONLY="C09 C12" restricts the run to the entries of those properties (after a change that
# cannot affect the others, e.g. contracts of one package).
cd /verif
W=/tmp/selftest.$$
git -C /repo worktree add -q --detach $W HEAD || exit 2
trap 'git -C /repo worktree remove --force $W 2>/dev/null; rm -rf $W' EXIT
fail=0
reset() { (cd $W && git checkout -q -- . && git clean -fdq); }
echo "== (a) reverted fixes"
grep '^fixed:' known-findings.txt | while read -r _ p c rest; do
  prop=${p#property=}
  if [ -n "${ONLY:-}" ]; then case " $ONLY " in *" $prop "*) ;; *) continue;; esac; fi
  reset
  if ! (cd $W && git show $c -- . ':!*contracts*_verif.go' | git apply -R 2>/dev/null); then
    echo "revert $c ($prop): does not apply any more (later change to the same lines) - skipped"; continue
  fi
  out=$(VERIF_REPO=$W ./check $prop quick 2>&1); rc=$?
  if [ $rc -eq 1 ] && echo "$out" | grep -q "^VIOLATION property=$prop"; then
    echo "revert $c ($prop): detected: $(echo "$out" | grep '^VIOLATION' | head -1 | sed 's/.*obligation=//' | cut -c1-100)"
  else
    echo "revert $c ($prop): NOT DETECTED (exit $rc)"; echo x >> $W.fail
  fi
done
echo "== (b) seeded changes expected to be detected"
for name in $(cat seeded/EXPECTED.txt 2>/dev/null | grep -v '^#'); do
  d=seeded/$name; id=${name%-*}
  prop=$(python3 -c "import json;print(json.load(open('$d/meta.json')).get('check_with', '$id'))")
  if [ -n "${ONLY:-}" ]; then case " $ONLY " in *" $prop "*) ;; *) continue;; esac; fi
  patch=$d/patch.diff; [ -f $d/patch.adapted.diff ] && patch=$d/patch.adapted.diff
  reset
  (cd $W && git apply "/verif/$patch") 2>/dev/null || { echo "$name: patch does not apply"; echo x >> $W.fail; continue; }
  out=$(VERIF_REPO=$W ./check $prop quick 2>&1); rc=$?
  if [ $rc -eq 1 ] && echo "$out" | grep -q "^VIOLATION"; then echo "$name: detected"; else echo "$name: NOT DETECTED (exit $rc)"; echo x >> $W.fail; fi
done
if [ -f $W.fail ]; then rm -f $W.fail; echo "SELFTEST FAILED"; exit 1; fi
echo "SELFTEST OK"
